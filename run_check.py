#!/venv/bin/python
"""Single entry point of the verification machinery.

  run_check.py --property C14 --tier quick|thorough     run the check, write evidence/C14.json
  run_check.py --replay replays/C14-....json             PRNG-free replay of a violation
  run_check.py --property C14 --index 17 [--dump]        re-run one planned run (debugging)
  run_check.py --trace-core FILE                         internal (C20 hash-seed runs)

Exit 0: held on everything explored (KNOWN-FINDING lines possible); 1: VIOLATION; 2: harness error."""
import argparse
import os
import sys

HERE = os.path.dirname(os.path.abspath(__file__))


def main():
    ap = argparse.ArgumentParser()
    ap.add_argument('--property')
    ap.add_argument('--tier', default=os.environ.get('VERIF_TIER', 'quick'), choices=['quick', 'thorough'])
    ap.add_argument('--replay')
    ap.add_argument('--index', type=int)
    ap.add_argument('--trace-core', help='internal: print the trace digest of one core spec (C20 hash-seed runs start fresh interpreters with this)')
    ap.add_argument('--workers', type=int)
    ap.add_argument('--budget', type=float)
    a = ap.parse_args()
    if os.environ.get('PYTHONHASHSEED') != '0' and not os.environ.get('VERIF_KEEP_HASHSEED'):
        # hash randomisation must not be able to influence a run: pin it and re-exec
        os.environ['PYTHONHASHSEED'] = '0'
        os.execv(sys.executable, [sys.executable, '-B'] + sys.argv)
    os.chdir(HERE)
    if HERE not in sys.path:
        sys.path.insert(0, HERE)
    from sim import env
    env.setup()
    from sim import runner
    seed = int(os.environ.get('VERIF_SEED', '1') or '1')
    try:
        if a.trace_core:
            from scenarios import c20
            return c20.trace_core_main(a.trace_core)
        if a.replay:
            return runner.replay_file(a.replay)
        if not a.property:
            ap.error('--property or --replay required')
        mod = a.property.lower()
        return runner.run_check(mod, a.tier, seed, workers=a.workers, budget_s=a.budget, only_index=a.index)
    except SystemExit:
        raise
    except BaseException:
        import traceback
        env.err('HARNESS-ERROR:\n' + traceback.format_exc())
        return 2


if __name__ == '__main__':
    sys.exit(main())
