"""C12 — system instructions, exception return, hints, coprocessor gating.

'irq_return'  program mode: a generated main program (User / System / Supervisor, ARM / Thumb) runs with real vectors and
              handlers; IRQ and FIQ lines are asserted at seeded ticks, SVC/UDF sit in the program; every handler returns with a
              seeded standard return sequence.  Oracle: interrupt transparency — the sequence of main-program views (its register
              bank, CPSR, PC, its data and stack pages) equals that of the fault-free run, the interrupted CPSR is restored exactly,
              and the program finishes within a bounded number of ticks after the last fault.
'psr_walk'    histories of MSR (register/immediate, CPSR/SPSR, all byte masks), CPS, SETEND, MRS and exception returns with arbitrary saved
              PSRs (SUBS/MOVS pc,lr; ERET; RFE; LDM {pc}^) in every mode, Secure/Non-secure,
              NMFI, SCR.AW/FW, with and without the extensions, both ISAs.  Oracle: models/cpsr_write step by step.
'hints'       NOP/YIELD/WFE/WFI/SEV change nothing but PC, event register and wait flags; a core in WFI is woken by an interrupt,
              the handler returns to the instruction after the WFI and the program finishes (bounded liveness).
'coproc'      MCR/MRC/CDP/LDC/STC/MCRR/MRRC to cp0..cp13 under seeded CPACR/NSACR/HCPTR in every mode and security state against
              a CoprocAccepted model: denied => Undefined Instruction entry, accepted => the documented not-implemented hook."""
import random

from sim import gen as G, machine as M, prog as P
from sim.asm import A, T, emit
from sim.board import Board
from sim.entrymon import EntryMonitor
from sim.models import banking as BK, cpsr_write as CW, exc_entry as EM
from sim.monitors import ModeMonitor, RangeMonitor
from sim.stream import StreamBoard

PROPERTY = 'C12'
LEVEL = 'exploration'
BUDGET_S = {'quick': 150, 'thorough': 2400}
RULE = ("irq_return: seeded main programs (loops, PUSH/POP, LDM/STM, conditional code, IT blocks, SVC, UDF) x main mode x ISA x handler ISA x "
        "return instruction per exception kind (SUBS/MOVS pc, LDM^, four SRS/RFE pairs, return inside an IT block, SRS+CPS+RFE from System/Supervisor mode, "
        "Monitor handlers behind MVBAR, Hyp handlers behind HVBAR returning with ERET) x seeded IRQ/FIQ schedules (nested FIQ-in-handler included); psr_walk: seeded "
        "op histories incl. exception returns by SUBS/MOVS pc, ERET (also from Hyp mode), RFE and LDM {pc}^ with arbitrary saved PSRs; hints / "
        "coproc: seeded single-instruction and wake-up cases. distinct_nontrivial = distinct (interrupted mode, ISA, in-IT, exception kind, return "
        "sequence, handler ISA) tuples with a completed return + distinct (op, mode, secure, bytemask, changed-field set) tuples of psr_walk + "
        "distinct (hint, encoding, outcome) and (coproc instruction, access-control outcome, mode, secure) tuples.")
ASSUMPTIONS = [
    "since fix 255f41a instruction fetch is little-endian whatever CPSR.E says; main programs run with E=0 or 1, handlers with SCTLR.EE=0 or 1",
    "UNPREDICTABLE PSR writes are only checked for 'no reserved mode installed' and for the fields written before the UNPREDICTABLE statement",
    "MRS of the CPSR from User mode: mode and mask bits are UNKNOWN and not compared",
    "the data-abort 'grant and retry' path belongs to C14; here handlers exist for IRQ, FIQ, SVC, UND",
    "irq_return has Monitor handlers (SCR.IRQ/FIQ) and Hyp handlers returning with ERET (HCR.IMO/FMO, Thumb handlers only: the ARM encoding of ERET is a declared-unimplemented decoder row); Hyp traps and HVC are not part of irq_return",
]


def plan(tier, seed):
    if tier == 'quick':
        return [{'k': 'witness-mrs'}] + [{'k': 'irq_return'}] * 9000 + [{'k': 'psr_walk'}] * 8000 + [{'k': 'hints'}] * 5000 + [{'k': 'coproc'}] * 6000
    return [{'k': 'witness-mrs'}] + [{'k': 'irq_return'}] * 300000 + [{'k': 'psr_walk'}] * 80000 + [{'k': 'hints'}] * 40000 + [{'k': 'coproc'}] * 40000


# =================================================================== irq_return

def build_program_case(rng, n_blocks=None, allow=None, main_modes=('usr', 'sys', 'svc'), extra_sys=None, rec_data=False, cps_returns=False):
    cfg = {'arch_version': 7, 'have_security_ext': rng.random() < 0.5, 'have_virt_ext': False, 'have_lpae': False,
           'memory_system_architecture': 'PMSA', 'number_of_mpu_regions': 12}
    thumb = rng.getrandbits(1)
    te = rng.getrandbits(1)
    mode = rng.choice(main_modes)
    rets = {k: rng.choice((P.RETURNS_THUMB if te else P.RETURNS_ARM)[k]) for k in ('irq', 'fiq', 'svc', 'und', 'dabt')}
    rets['mon_irq'] = rng.choice((P.RETURNS_THUMB if te else P.RETURNS_ARM)['irq'])
    rets['mon_fiq'] = rng.choice((P.RETURNS_THUMB if te else P.RETURNS_ARM)['fiq'])
    rets['mon_smc'] = rng.choice((P.RETURNS_THUMB if te else P.RETURNS_ARM)['svc'])
    if cps_returns and rng.random() < 0.2:
        # IRQ/FIQ handlers that leave their own mode with CPS and return with RFE from System (main in Supervisor mode) or Supervisor mode
        for k in ('irq', 'fiq'):
            if rng.random() < 0.7:
                rets[k] = 'srs_cps_sys_rfe' if mode == 'svc' else 'srs_cps_svc_rfe'
                if mode != 'svc' and rets['svc'] not in ('movs', 'subs', 'ldm^', 'srs_rfe', 'it_subs', 'adds0', 'orrs0', 'eors0', 'bics0'):
                    rets['svc'] = 'srs_rfe'          # the SVC handler now shares its (descending) stack with an interrupt handler: no ascending frames
    low, hinfo = P.build_low(te, rets)
    allow = allow or ('alu', 'mem', 'stack', 'loop', 'cond', 'svc', 'udf', 'it', 'multi', 'smc')
    hyp_route = extra_sys is None and cps_returns and rng.random() < 0.12
    tge = hyp_route and mode == 'usr' and rng.random() < 0.6
    if tge:
        # HCR.TGE: SVC from Non-secure User mode is taken to Hyp mode (Hyp Trap vector, return with ERET); no UDF/SMC in these programs
        allow = tuple(a for a in allow if a not in ('udf', 'smc'))
    mg = P.MainGen(rng, thumb, mode != 'usr', allow=allow, sec=cfg['have_security_ext'])
    words = mg.generate(n_blocks or rng.choice([6, 12, 20]))
    code = emit(words, thumb)
    devices = G.std_devices(rec_data=rec_data, high=False)
    G.set_data(devices[0], 0, low)
    G.set_data(devices[1], 0, code)
    G.set_data(devices[2], 0x400, bytes(rng.getrandbits(8) for _ in range(0x100)))
    e_main, ee = int(rng.random() < 0.25), int(rng.random() < 0.3)      # big-endian data in the main program / in the handlers
    if hyp_route:
        # Virtualization Extensions: a Non-secure main program whose physical IRQ and/or FIQ are routed to Hyp mode (HCR.IMO/FMO); the
        # Hyp handlers sit behind HVBAR and return with ERET
        cfg.update(have_security_ext=True, have_virt_ext=True, memory_system_architecture='VMSA')
        extra_sys = {'scr': 1 | 1 << 4 | 1 << 5, 'hcr': rng.choice([1 << 4, 1 << 3, 3 << 3]) | int(tge) << 27, 'hsctlr': 1 << 30 | ee << 25, 'hvbar': P.HYP_BASE}
    regs = P.main_state(rng, cfg, mode, thumb, te, extra_sys, e=e_main, ee=ee)
    if hyp_route:
        extra_sys = None
        rets['hyp_irq'] = rets['hyp_fiq'] = rets['hyp_svc'] = 'eret'
    if extra_sys is None and not hyp_route and mode == 'usr' and rng.random() < 0.5:
        # MPU on: the handler stacks are privileged-only, the User program keeps access to its own stack, data and code.  A return
        # sequence must therefore finish every access to the handler stack BEFORE it drops to User mode
        mpu = [(0, 0, 0)] * 12
        mpu[0] = (1 | 31 << 1, 0, 3 << 8)
        mpu[5] = (1 | 8 << 1, G.STACKS + 0x200, 1 << 8)
        mpu[6] = (1 | 9 << 1, G.STACKS + 0x400, 1 << 8)
        regs['sys'].update(G.mpu_sys(mpu, nu=rng.getrandbits(1)))
        regs['sys']['sctlr'] = G.sctlr_value(m=1, a=0, u=1, te=te, v=0, br=1, ee=ee) | (regs['sys']['sctlr'] & 1 << 24)
    if cfg['have_security_ext'] and not hyp_route and rng.random() < 0.5:
        # Security Extensions routing: IRQ and/or FIQ are taken to Monitor mode (handlers behind MVBAR), from a Secure or Non-secure main program
        scr = rng.choice([2, 4, 6]) | rng.getrandbits(1) | rng.getrandbits(2) << 4
        if scr & 1 and not scr & 4:
            scr |= 1 << 4        # Non-secure FIQ handled in FIQ mode needs SCR.FW=1, otherwise the entry cannot mask F and the line re-fires forever
        regs['sys']['scr'] = scr
    elif cfg['have_security_ext'] and not hyp_route and rng.random() < 0.5:
        # a Non-secure main program whose exceptions are all handled in Non-secure state (SCR.AW seeded; FW=1, see above)
        regs['sys']['scr'] = 1 | 1 << 4 | rng.getrandbits(1) << 5
    core = {'config': cfg, 'devices': devices, 'regs': regs, 'done_pc': G.CODE + len(code) - (2 if thumb else 4)}
    if rng.random() < 0.15:
        core['custom_fetch'] = True          # an integrator's fetch unit in place of the stock fetch_instruction() (sim/machine.py)
    meta = {'thumb': thumb, 'te': te, 'mode': mode, 'returns': rets, 'main_lo': G.CODE, 'main_hi': G.CODE + len(code),
            'handlers': {k: list(v) for k, v in hinfo.items()}, 'e': e_main, 'ee': ee}
    return core, meta


def fault_free_ticks(core, meta, cap=3000):
    b = Board({'cores': [core], 'events': [], 'max_ticks': cap}, [])
    b.run()
    return b.tick if b.cores[0].finished else None


def gen_irq_return(rng):
    # the generated programs terminate by construction; the fault-free length only places the faults.  A program that does not finish its
    # fault-free run (e.g. because a synchronous exception never returns) is kept and reported by the run, never regenerated
    core, meta = build_program_case(rng, cps_returns=True)
    n = fault_free_ticks(core, meta) or 300
    events = []
    nf = rng.choice([0, 1, 1, 2, 3, 5, 8])
    for _ in range(nf):
        events.append({'tick': rng.randrange(0, max(1, int(n * 1.5))), 'core': 0, 'kind': rng.choice(['irq', 'irq', 'fiq'])})
    if nf and rng.random() < 0.4:
        # bursts: a FIQ right behind an IRQ lands inside the IRQ handler (nesting)
        t = events[0]['tick']
        events.append({'tick': t + rng.randrange(1, 6), 'core': 0, 'kind': 'fiq'})
    for kind_ in ('irq', 'fiq'):
        if meta['returns'].get(kind_) == 'spsr_nest':
            # every activation of the re-entrant handler keeps 24-28 bytes on a 128-byte stack: at most three requests of that kind per run
            keep = [e for e in events if e['kind'] == kind_][:2]
            events = [e for e in events if e['kind'] != kind_ or any(e is k_ for k_ in keep)]
    for e in list(events):
        if meta['returns'].get(e['kind']) == 'spsr_nest' and rng.random() < 0.7 and sum(1 for x in events if x['kind'] == e['kind']) < 3:
            # the same line again while the re-entrant handler runs (see prog.py 'spsr_nest'): nests into the same mode
            events.append({'tick': e['tick'] + rng.randrange(2, meta['handlers'][e['kind']][2] + 2), 'core': 0, 'kind': e['kind']})
    hl = sum(v[2] for v in meta['handlers'].values())
    grant = None
    if events and core['config']['memory_system_architecture'] == 'PMSA' and rng.random() < 0.3:
        # faults INSIDE the handlers: the MPU region over the IRQ (or FIQ) handler's own stack slot is switched to no-access while that handler
        # runs, so one of its stack accesses - the PUSH / SRS of the prologue, or a word of the RFE / LDM ^ / POP of the return sequence itself -
        # takes a Data Abort; the abort handler (own stack) asks for the access to be granted and retries the instruction with its standard return
        sysr = core['regs']['sys']
        if 'drsrs' not in sysr:
            mpu = [(0, 0, 0)] * 12
            mpu[0] = (1 | 31 << 1, 0, 3 << 8)
            sysr.update(G.mpu_sys(mpu))
            sysr['sctlr'] = G.sctlr_value(m=1, a=0, u=1, te=meta['te'], v=0, br=1, ee=meta.get('ee', 0)) | (sysr['sctlr'] & 1 << 24)
        which = rng.choice(['irq', 'irq', 'fiq'])
        for nme, v in (('drsrs', 7 << 1), ('drbars', G.STACKS + (0x300 if which == 'irq' else 0x200)), ('dracrs', 0)):
            sysr[nme] = list(sysr[nme])
            sysr[nme][10] = v
        grant = 10
        for e in [e for e in events if e['kind'] == which]:
            events.append({'tick': e['tick'] + rng.randrange(1, meta['handlers'][which][2] + 3), 'core': 0, 'kind': 'sys', 'name': 'drsrs', 'index': 10, 'value': 7 << 1 | 1,
                           'tag': 'mpu-revoke'})
    if rng.random() < 0.12:
        # the integrator restores a checkpoint of the register file in the middle of the run (board event 'regswap': arm.registers replaced by a deep copy)
        for _ in range(rng.choice([1, 1, 2])):
            events.append({'tick': rng.randrange(0, max(1, int(n * 1.5))), 'core': 0, 'kind': 'regswap'})
    events.sort(key=lambda e: e['tick'])
    case = {'scenario': 'irq_return', 'cores': [core], 'meta': meta, 'events': events, 'clean_ticks': n,
            'max_ticks': n + (len(events) + 2) * (hl + 8) + 64}
    if grant is not None:
        case['grant_region'] = grant
    return case


class ViewRecorder:
    """records the main program's view after each of its own instructions"""

    def __init__(self, meta):
        self.meta = meta
        self.views = []
        self.mode = M.MODES[meta['mode']]

    def on_tick(self, b, rec):
        if rec['what'] != 'step' or not (self.meta['main_lo'] <= rec['pre_pc'] < self.meta['main_hi']):
            return
        if rec['pre'][1] & 0x1F != self.mode:
            return
        arm = b.cores[0].arm
        r = arm.registers
        regs = tuple(r.get_rmode(i, self.mode) for i in range(15))
        self.views.append((rec['pre_pc'], regs, rec['post'][1], r.pc_store_value(),
                           M.digest_of(M.peek(arm, P.DBASE, 0x100)), M.digest_of(M.peek(arm, P.STACK_TOP['usr' if self.mode in (0x10, 0x1f) else 'svc'] - 0x100, 0x100))))


class ReturnChecker:
    """exception return restores exactly the interrupted CPSR and resumes at the interrupted address"""

    def __init__(self, mon, meta):
        self.mon, self.meta = mon, meta
        self.stack = []      # (kind, interrupted cpsr, resume pc, handler mode)
        mon.listeners.append(self.on_entry)
        self.completed = set()

    def on_entry(self, kind, exp, s):
        link = exp['lr'] if exp['lr'] is not None else exp.get('elr')          # entries to Hyp mode keep their return address in ELR_hyp
        resume = {'irq': s['pc'], 'fiq': s['pc'], 'svc': link, 'und': link, 'smc': link, 'dabt': s['pc']}.get(kind)
        if kind in ('svc', 'und', 'smc') and resume is not None:
            resume &= ~1
        if kind == 'und' and self.meta['returns'].get('und') == 'patch_retry':
            resume = (resume - 2) & 0xFFFFFFFF          # the patched 16-bit instruction is retried
        in_it = bool((s['cpsr'] >> 5) & 1 and EM.cpsr_it(s['cpsr']) & 0xF)
        self.stack.append((kind, exp['spsr'], resume, exp['mode'], in_it))

    def on_tick(self, b, rec):
        if rec['what'] != 'step' or not self.stack:
            return
        kind, saved, resume, hmode0, in_it = self.stack[-1]
        hmode = hmode0
        pre_mode, post_mode = rec['pre'][1] & 0x1F, rec['post'][1] & 0x1F
        arm = b.cores[0].arm
        name = type(arm.executed_opcode).__name__
        entered = [1 for t, k in self.mon.taken if t == rec['tick']]
        hk = ('mon_' + kind) if hmode0 == 0x16 and ('mon_' + kind) in self.meta['handlers'] else kind
        if hmode0 == 0x1a and ('hyp_' + kind) in self.meta['handlers']:
            hk = 'hyp_' + kind
        ha = self.meta['handlers'].get(hk)
        ppc = rec['post'][0][M.RNAMES.index('PC')]
        if ha:
            # the handler's code was left without a new exception entry: this is the exception return (it may return to the mode it
            # runs in, and it may have changed mode itself with CPS on the way)
            returned = ha[0] <= rec['pre_pc'] < ha[0] + ha[1] and not (ha[0] <= ppc < ha[0] + ha[1]) and not entered
            if resume is not None and ha[0] <= resume < ha[0] + ha[1]:
                # a nested entry of the same handler (re-entrant 'spsr_nest' form): its return jumps BACK to the interrupted point of the outer
                # activation, inside the same code range (handlers contain no backward branches)
                returned = ha[0] <= rec['pre_pc'] < ha[0] + ha[1] and ppc == resume and ppc <= rec['pre_pc'] and not entered
        else:
            returned = pre_mode == hmode and post_mode != hmode and not entered
        if returned:
            # the handler's mode was left without a new exception entry: this is the exception return (recognised by what it
            # does, not by the opcode class name, so renaming classes cannot upset the check)
            self.stack.pop()
            post_cpsr = rec['post'][1]
            pc = rec['post'][0][M.RNAMES.index('PC')]
            ret = self.meta['returns'].get(hk, self.meta['returns'].get(kind, '?'))
            site = name[:-2] if name[-2:] in ('A1', 'A2', 'T1', 'T2') else name
            if post_cpsr != saved:
                b.violate('return.cpsr_restored', site, 'cpsr_not_restored',
                          '%s return (%s) from %s handler: CPSR %#010x, interrupted CPSR was %#010x' % (ret, name, kind, post_cpsr, saved))
            elif resume is not None and pc != resume:
                b.violate('return.cpsr_restored', site, 'wrong_resume_address',
                          '%s return from %s handler resumed at %#x, expected %#x' % (ret, kind, pc, resume))
            else:
                key = 'ret|%x|%s|%d|%s|%s|%d' % (saved & 0x1F, 'T' if (saved >> 5) & 1 else 'A', in_it, kind, ret, self.meta['te'])
                b.cover.add(key)
                b.count('probe.returns-completed')


def run_program(case, events, observers_extra=()):
    c = dict(case, events=events)
    b = Board(c, [])
    cfg = case['cores'][0]['config']
    mon = EntryMonitor(b, 0, report=True, oracle='irq_return.entry_model')
    vr = ViewRecorder(case['meta'])
    rc = ReturnChecker(mon, case['meta'])
    b.observers = [mon, vr, rc, RangeMonitor(report=False), ModeMonitor(M.full_config(cfg))] + list(observers_extra)
    if case.get('grant_region') is not None:
        arm = b.cores[0].arm

        def grant():
            arm.registers.drsrs[case['grant_region']].value &= ~1
            b.count('fault.mpu-grant')
        M.device_at(arm, G.INTC).on_grant = grant
    b.run()
    return b, vr


def run_irq_return(case):
    bA, vA = run_program(case, [])
    bB, vB = run_program(case, case['events'])
    b = bB
    b.violations = bA.violations + bB.violations
    if not bA.cores[0].finished:
        b.violate('irq_return.liveness', 'fault_free', 'fault_free_run_did_not_finish', 'the run without interrupts did not reach its done marker within %d ticks (its own SVC/UDF/SMC entries and returns are the only exceptions in it)' % bA.tick)
        return b, bA
    if b.violations:
        return b, bA
    n = min(len(vA.views), len(vB.views))
    for i in range(n):
        if vA.views[i] != vB.views[i]:
            a, bb = vA.views[i], vB.views[i]
            what = ['pre_pc', 'regs', 'cpsr', 'pc', 'data', 'stack']
            d = [what[j] for j in range(6) if a[j] != bb[j]]
            det = ''
            if 'regs' in d:
                det = ' regs: ' + ', '.join('r%d %#x vs %#x' % (j, a[1][j], bb[1][j]) for j in range(15) if a[1][j] != bb[1][j])
            if 'cpsr' in d:
                det += ' cpsr %#x vs %#x' % (a[2], bb[2])
            cls = 'cpsr_differs' if d == ['cpsr'] else ('registers_differ' if 'regs' in d else ('memory_differs' if ('data' in d or 'stack' in d) else 'control_flow_differs'))
            b.violate('irq_return.transparency', 'returns=%s' % '/'.join('%s:%s' % (k, case['meta']['returns'][k]) for k in ('irq', 'fiq', 'svc', 'und')), cls,
                      'main instruction #%d at %#x: with faults %s differ from the fault-free run.%s' % (i, a[0], d, det))
            return b, bA
    if not bB.cores[0].finished or len(vB.views) < len(vA.views):
        b.violate('irq_return.liveness', 'te=%d' % case['meta']['te'], 'not_finished_within_bound',
                  'main program executed %d of %d instructions within %d ticks (fault-free: %d ticks, %d faults delivered)' % (
                      len(vB.views), len(vA.views), bB.tick, bA.tick, bB.stats.get('fault.irq-delivered', 0) + bB.stats.get('fault.fiq-delivered', 0)))
    return b, bA


# =================================================================== psr_walk

PSR_OPS = ['msr_reg', 'msr_reg', 'msr_reg', 'msr_imm', 'msr_spsr', 'cps', 'cps', 'setend', 'mrs', 'mrs_spsr', 'set_mode', 'set_ns', 'set_bits', 'ret', 'ret', 'regswap']


def gen_psr_walk(rng):
    sec = rng.random() < 0.7
    virt = sec and rng.random() < 0.35
    cfg = {'arch_version': 7, 'have_security_ext': sec, 'have_virt_ext': virt, 'have_lpae': rng.random() < 0.3,      # (LPAE: a capability flag; translation stays off here)
           'memory_system_architecture': 'VMSA' if virt else 'PMSA', 'number_of_mpu_regions': 12}
    thumb = rng.getrandbits(1)
    modes = G.legal_modes(cfg)
    mode = rng.choice(modes)
    devices = G.std_devices(high=False)
    devices.append({'kind': 'ram', 'begin': 0xFFFFF000, 'end': 0x100000000})          # the last page of the address space (return frames may end exactly at 2^32)
    cpsr = G.random_cpsr(rng, cfg, mode=mode, thumb=thumb, e=None)
    scr = (rng.getrandbits(6) & 0x31) if sec else 0
    if mode == 'hyp':
        scr |= 1
    sys = {'sctlr': G.sctlr_value(m=0, a=0, u=1, te=thumb, nmfi=rng.getrandbits(1)), 'scr': scr, 'nsacr': rng.choice([0, 1 << 19]) | 0x3FFF, 'hsctlr': thumb << 30}
    regs = {'cpsr': cpsr, 'pc': G.CODE, 'sys': sys, 'R': {n: rng.getrandbits(32) for n in M.RNAMES if n != 'PC'}, 'spsr': G.random_spsrs(rng, cfg, valid=False)}
    ops = []
    allmodes = [M.MODES[m] for m in modes]
    for _ in range(rng.choice([20, 60, 120, 200])):
        k = rng.choice(PSR_OPS)
        v = rng.getrandbits(32)
        if rng.random() < 0.7:
            v = (v & ~0x1F) | rng.choice(allmodes + [0x16, 0x1a, 0x00, 0x14, 0x1e])
        ops.append({'op': k, 'v': v, 'mask': rng.getrandbits(4), 'rn': rng.randrange(13), 'imm12': rng.getrandbits(12), 'imod': rng.randrange(4), 'aif': rng.getrandbits(3),
                    'mode': rng.choice([None] + allmodes + [0x16, 0x1a, 0x05]), 'e': rng.getrandbits(1), 't1': rng.getrandbits(1), 'setmode': rng.choice(modes),
                    'bits': rng.getrandbits(8), 'dp': rng.getrandbits(16)})
    core = {'config': cfg, 'devices': devices, 'regs': regs, 'words': [], 'force': None, 'no_poke': []}
    if rng.random() < 0.25:
        core['twin'] = rng.choice([30, 60, 100])       # per cent of the ticks preceded by a detour through the other instruction set (sim/stream.py)
    return {'scenario': 'psr_walk', 'cores': [core], 'ops': ops, 'thumb': thumb, 'events': [], 'max_ticks': 10 ** 9, 'stop_at_done': False}


def dp_return(dp, lr, cin, pcv):
    """ARM data-processing exception return '<op>S pc, Rn, <operand2>' whose result is 'lr': -> (word, {register: value to load first}, result).
    Rn is any register (the PC reads as instruction + 8, so with Rn = pc the result follows from the instruction's own address)"""
    M32 = 0xFFFFFFFF
    opn = ['sub', 'add', 'rsb', 'adc', 'sbc', 'rsc', 'orr', 'eor', 'bic', 'and', 'mov', 'mvn'][(dp >> 1) % 12]
    rn = (dp >> 5) & 15
    i8 = 4 * ((dp >> 9) & 0x3F)
    regform = bool((dp >> 15) & 1) or opn in ('and', 'mov', 'mvn')
    if rn == 15 and opn not in ('sub', 'add'):
        rn = 14
    if opn == 'orr':
        op2 = 0
    elif opn == 'bic':
        op2 = i8 >> 2 & 3
    elif opn == 'and':
        op2 = lr | 0xF0000003
    elif opn == 'mov':
        op2 = lr
    elif opn == 'mvn':
        op2 = lr ^ M32
    else:
        op2 = i8
    sets = {}
    if opn == 'bic':
        lr &= ~op2 & M32                  # (the operation clears those bits of whatever Rn holds)
    if rn == 15:
        lr = (pcv - op2) & M32 if opn == 'sub' else (pcv + op2) & M32
    else:
        sets[rn] = {'sub': lr + op2, 'add': lr - op2, 'rsb': op2 - lr, 'adc': lr - op2 - cin, 'sbc': lr + op2 + (1 - cin), 'rsc': op2 - lr - (1 - cin),
                    'orr': lr, 'eor': lr ^ op2, 'bic': lr | op2, 'and': lr, 'mov': 0x5A5A5A58, 'mvn': 0xA5A5A5A4}[opn] & M32
    if regform:
        rm = 12 if rn != 12 else 11
        sets[rm] = op2
        w = A.dp_reg(opn, 15, 0 if opn in ('mov', 'mvn') else rn, rm, s=1)
    else:
        w = A.dp_imm(opn, 15, rn, op2, s=1)
    return w, sets, lr


def run_psr_walk(case):
    core = dict(case['cores'][0], words=[])
    c = dict(case, cores=[core])
    b = StreamBoard(c, [])
    cfgd = M.full_config(core['config'])
    sec, virt = cfgd['have_security_ext'], cfgd['have_virt_ext']
    mon = EntryMonitor(b, 0, report=False)
    b.observers = [mon, ModeMonitor(cfgd), RangeMonitor(report=False)]
    arm = b.cores[0].arm
    r = arm.registers
    words = core['words']
    thumb = case['thumb']
    SP = {0x11: 'fiq', 0x12: 'irq', 0x13: 'svc', 0x16: 'mon', 0x17: 'abt', 0x1a: 'hyp', 0x1b: 'und'}

    def execw(w):
        if ((r.cpsr.value >> 5) & 1) and w <= 0xFFFF:
            w = w << 16 | T.NOP
        words.append(w)
        n0 = len(mon.taken)
        b.advance()
        return not b.cores[0].dead and len(mon.taken) == n0 and not real_violations()

    def real_violations():
        return [v for v in b.violations if not (v['oracle'] == 'psr.mrs' and v['cls'] == 'privileged_read_loses_bits')]

    for idx, op in enumerate(case['ops']):
        if real_violations() or b.cores[0].dead:
            break
        cur = r.cpsr.value & 0x1F
        thumb = (r.cpsr.value >> 5) & 1          # exception returns in the history may switch the instruction set
        scr = r.scr.value if sec else 0
        secure = (not sec) or not (scr & 1) or cur == 0x16
        nmfi = r.sctlr.nmfi
        rfr = (r.nsacr.value >> 19) & 1
        k = op['op']
        pre_cpsr = r.cpsr.value
        pre_sp = {m: getattr(r, 'spsr_' + m) for m in M.SPSR_MODES}
        pre_regs = M.regs_dict(arm)
        expect_cpsr, expect_sp, unpred, named = pre_cpsr, dict(pre_sp), False, set()
        wb_expect = None
        label = k
        if k == 'set_mode':
            m = M.MODES[op['setmode']]
            if m == 0x1a and not (scr & 1):
                continue
            if m == 0x16 and not sec:
                continue
            r.cpsr.value = (r.cpsr.value & ~0x1F) | m
            b.count('fault.priv-drop')
            continue
        if k == 'set_ns':
            if sec and cur != 0x1a:
                r.scr.value = (r.scr.value & ~0x31) | (op['bits'] & 0x31)
                b.count('fault.scr-rewrite')
            continue
        if k == 'regswap':
            if op['bits'] & 3:
                continue                       # (a quarter of the draws)
            b.apply_event({'tick': b.tick, 'core': 0, 'kind': 'regswap'})
            r = arm.registers
            continue
        if k == 'set_bits':
            r.sctlr.nmfi = op['bits'] & 1
            r.nsacr.value = (r.nsacr.value & ~(1 << 19)) | ((op['bits'] >> 1) & 1) << 19
            continue
        if k in ('msr_reg', 'msr_spsr'):
            spsr = k == 'msr_spsr'
            if spsr and cur in (0x10, 0x1f):
                continue
            mask = op['mask'] or 8
            rn = op['rn']
            r.set(rn, op['v'])
            named.add(rn)
            w = T.msr(rn, mask, int(spsr)) if thumb else A.msr_reg(rn, mask, int(spsr))
            if spsr:
                expect_sp[SP[cur]], unpred = CW.spsr_write_by_instr(pre_sp[SP[cur]], op['v'], mask, sec, virt)
            else:
                expect_cpsr, unpred = CW.cpsr_write_by_instr(pre_cpsr, op['v'], mask, False, sec, virt, scr, nmfi, rfr)
            label = '%s|mask%x' % (k, mask)
        elif k == 'msr_imm':
            if thumb:
                continue
            mask = op['mask'] or 4
            val = CW.arm_expand_imm(op['imm12'])
            w = A.msr_imm(op['imm12'] & 0xFF, mask, 0, rot=op['imm12'] >> 8)
            expect_cpsr, unpred = CW.cpsr_write_by_instr(pre_cpsr, val, mask, False, sec, virt, scr, nmfi, rfr)
            label = 'msr_imm|mask%x' % mask
        elif k == 'cps':
            imod, aif, mode = op['imod'], op['aif'], op['mode']
            if imod == 1 or (imod == 0 and mode is None) or (imod >= 2 and aif == 0):
                continue                       # UNPREDICTABLE encodings
            if thumb and op['t1'] and mode is None and imod >= 2:
                w = T.cps(imod & 1, aif)
            else:
                w = T.cps_w(imod, aif if imod >= 2 else 0, mode) if thumb else A.cps(imod, aif if imod >= 2 else 0, mode)
                if imod < 2:
                    aif = 0
            if cur != 0x10:
                val = pre_cpsr
                if imod == 2:
                    val &= ~(aif << 6)
                if imod == 3:
                    val |= aif << 6
                if mode is not None:
                    val = (val & ~0x1F) | mode
                expect_cpsr, unpred = CW.cpsr_write_by_instr(pre_cpsr, val, 0xF, False, sec, virt, scr, nmfi, rfr)
        elif k == 'setend':
            w = T.setend(op['e']) if thumb else A.setend(op['e'])
            expect_cpsr = (pre_cpsr & ~0x200) | op['e'] << 9
        elif k == 'ret':
            # exception return with an arbitrary saved PSR: CPSRWriteByInstr(SPSR, '1111', TRUE) then BranchWritePC(LR - imm)
            form = ['subs', 'subs', 'eret', 'rfe', 'ldm', 'subs', 'eret', 'rfe'][op['bits'] & 7]
            if form == 'eret' and not (virt and thumb):
                form = 'subs'                                    # (the ARM encoding of ERET is a declared-unimplemented decoder row)
            if form == 'ldm' and thumb:
                form = 'rfe'
            if cur in (0x10, 0x1f) or (cur == 0x1a and form != 'eret'):
                continue
            v = op['v'] & ~(1 << 24)                            # J = 0 (no Jazelle/ThumbEE)
            if not (v >> 5) & 1:
                v &= ~0x0600FC00                                 # IT must be zero when returning to ARM state
            lr = G.CODE + 0x100 + 4 * (op['imm12'] & 0x3F)
            imm = 0
            if form in ('subs', 'eret'):
                setattr(r, 'spsr_' + SP[cur], v)
                pre_sp[SP[cur]] = v
                expect_sp[SP[cur]] = v
                if cur == 0x1a:
                    r.elr_hyp = lr                               # ERET in Hyp mode returns to ELR_hyp
                else:
                    r.set(14, lr)
                    named.add(14)
                if form == 'eret':
                    w = T.ERET if thumb else A.eret()
                else:
                    imm = 4 if op['t1'] else 0
                    if thumb:
                        w = T.subs_pc_lr(imm)
                    elif op.get('dp', 0) & 1 and cur != 0x1a:
                        # <op>S pc, Rn, <operand2> with ANY Rn (lr, sp, pc, r0-r12), every data-processing operation, immediate and register
                        # operand: B9.3.20 'SUBS PC, LR and related instructions'
                        if (op['dp'] >> 12) & 7 == 0:
                            # results at the very ends of the address space (and with low bits set: BranchWritePC aligns them away)
                            lr = [0, 0xFFFFFFFF, 0xFFFFFFFC, 0xFFFFFFFE, 0x80000000, 1, 2, 3][(op['dp'] >> 9) & 7]
                        w, sets, lr = dp_return(op['dp'], lr, (pre_cpsr >> 29) & 1, (pre_regs['PC'] + 8) & 0xFFFFFFFF)
                        for rx_, vx_ in sets.items():
                            r.set(rx_, vx_)
                            named.add(rx_)
                        imm = 0
                    elif imm == 0 and (op['bits'] >> 4) & 1:
                        # ADDS / ORRS / EORS / BICS pc, lr, #0: the other data-processing forms of the same return
                        w = A.dp_imm(['add', 'orr', 'eor', 'bic'][(op['bits'] >> 5) & 3], 15, 14, 0, s=1)
                    else:
                        w = A.subs_pc_lr(imm) if (imm or op['e']) else A.movs_pc_lr()
            elif form == 'rfe':
                # RFE: PC and CPSR come from two words in memory (read with the current data endianness)
                rn = op['rn']
                addr = G.DATA + 0x100 + 8 * (op['imm12'] & 0x1F)
                if op.get('dp', 0) & 0x300 == 0x300 and not (0xFFFFFFF0 <= pre_regs['PC'] <= 0xFFFFFFFF):
                    # (unless the instruction itself is about to be placed there: an earlier return may have left the PC in the last words)
                    addr = 0xFFFFFFF8                             # a frame that ends exactly at the end of the address space: nothing wraps, fully defined
                bo = 'big' if (pre_cpsr >> 9) & 1 else 'little'
                M.poke(arm, addr, lr.to_bytes(4, bo) + v.to_bytes(4, bo))
                r.set(rn, addr)
                named.add(rn)
                w = T.rfe(rn, db=0, w=op['t1']) if thumb else A.rfe(rn, p=0, u=1, w=op['t1'])
                wb_expect = (rn, (addr + 8) & 0xFFFFFFFF if op['t1'] else addr)
            else:
                # LDM rn, {pc}^: the PC comes from memory, the CPSR from the SPSR
                setattr(r, 'spsr_' + SP[cur], v)
                pre_sp[SP[cur]] = v
                expect_sp[SP[cur]] = v
                rn = op['rn']
                addr = G.DATA + 0x100 + 8 * (op['imm12'] & 0x1F)
                if op.get('dp', 0) & 0x300 == 0x300 and not (0xFFFFFFF0 <= pre_regs['PC'] <= 0xFFFFFFFF):
                    addr = 0xFFFFFFFC                             # the last word of the address space
                M.poke(arm, addr, lr.to_bytes(4, 'big' if (pre_cpsr >> 9) & 1 else 'little'))
                r.set(rn, addr)
                named.add(rn)
                w = A.ldstm(1, rn, 0x8000, p=0, u=1, w=op['t1'], s=1)
                wb_expect = (rn, (addr + 4) & 0xFFFFFFFF if op['t1'] else addr)
            pre_regs = M.regs_dict(arm)
            expect_cpsr, unpred = CW.cpsr_write_by_instr(pre_cpsr, v, 0xF, True, sec, virt, scr, nmfi, rfr)
            ret_target = (lr - imm) & 0xFFFFFFFF
            label = 'ret|%s|%s' % (form, 'T' if (expect_cpsr >> 5) & 1 else 'A')
        elif k in ('mrs', 'mrs_spsr'):
            spsr = k == 'mrs_spsr'
            if spsr and cur in (0x10, 0x1f):
                continue
            rd = op['rn']
            w = T.mrs(rd, int(spsr)) if thumb else A.mrs(rd, int(spsr))
            named.add(rd)
        else:
            continue
        ok = execw(w)
        post_cpsr = r.cpsr.value
        if not ok:
            if not real_violations() and not b.cores[0].dead:
                b.violate('psr.model', label.split('|')[0], 'unexpected_exception', '%s in mode %#x raised %s (word %#x)' % (k, cur, mon.taken[-1:], w))
            break
        site = type(arm.executed_opcode).__name__
        site = site[:-2] if site[-2:] in ('A1', 'A2', 'T1', 'T2') else site
        # ---- CPSR
        if thumb and (pre_cpsr >> 5) & 1:
            pass
        cmpmask = 0xFFFFFFFF
        if unpred:
            cmpmask = ~0x1F & 0xFFFFFFFF
            pm = post_cpsr & 0x1F
            if pm != cur and ((not secure and pm == 0x16) or (not secure and pm == 0x11 and rfr) or (pm == 0x1a and (secure or cur != 0x1a))):
                # modes that exist in this configuration but are reserved for the other security state / for Hyp entries: illegal here
                b.violate('psr.model', site, 'bad_mode_installed', 'UNPREDICTABLE %s in %s mode %#x (NSACR.RFR=%d) installed mode %#x, which is illegal in this state' % (
                    k, 'Secure' if secure else 'Non-secure', cur, rfr, pm))
                break
            if CW.bad_mode(post_cpsr & 0x1F, sec, virt):
                b.violate('psr.model', site, 'bad_mode_installed', 'UNPREDICTABLE %s left reserved mode %#x' % (k, post_cpsr & 0x1F))
                break
        if (post_cpsr ^ expect_cpsr) & cmpmask:
            x = (post_cpsr ^ expect_cpsr) & cmpmask
            fld = 'M' if x & 0x1F else ('T' if x & 0x20 else ('F' if x & 0x40 else ('I' if x & 0x80 else ('A' if x & 0x100 else ('E' if x & 0x200 else (
                'IT/J' if x & 0x0700FC00 else ('GE' if x & 0xF0000 else 'flags')))))))
            b.violate('psr.model', site, 'cpsr_field_' + fld, '%s (word %#x, mask %x, value %#x) in mode %#x secure=%d scr=%#x nmfi=%d: CPSR %#010x, model %#010x (was %#010x)' % (
                k, w, op.get('mask', 0), op['v'], cur, secure, scr, nmfi, post_cpsr, expect_cpsr, pre_cpsr))
            break
        # ---- SPSRs
        for m in M.SPSR_MODES:
            got = getattr(r, 'spsr_' + m)
            if got != expect_sp[m] and not (unpred and k == 'msr_spsr' and not (got ^ expect_sp[m]) & ~0x1F):
                x = got ^ expect_sp[m]
                fld = 'bits26_24' if x & 0x07000000 else ('M' if x & 0x1F else 'other')
                b.violate('psr.model', site, 'spsr_field_' + fld, '%s mask %x value %#x in mode %#x: spsr_%s %#010x, model %#010x (was %#010x)' % (
                    k, op.get('mask', 0), op['v'], cur, m, got, expect_sp[m], pre_sp[m]))
                break
        if real_violations():
            break
        if k == 'ret' and not unpred:
            want_pc = ret_target & (~1 if (expect_cpsr >> 5) & 1 else ~3) & 0xFFFFFFFF
            if r.pc_store_value() != want_pc:
                b.violate('psr.model', site, 'return_address', 'exception return from mode %#x: PC %#x, expected %#x (LR %#x, restored CPSR %#010x)' % (
                    cur, r.pc_store_value(), want_pc, lr, post_cpsr))
                break
        if k == 'ret' and not unpred and wb_expect is not None:
            # the base register of RFE / LDM ^ in the bank of the mode the instruction ran in: written back (modulo 2^32) or left alone
            got_b = r.get_rmode(wb_expect[0], cur)
            if got_b != wb_expect[1] and BK.phys(wb_expect[0], cur) != 'PC':
                b.violate('psr.model', site, 'return_base_writeback', 'exception return (%s) from mode %#x: base r%d is %#x afterwards, expected %#x' % (
                    label, cur, wb_expect[0], got_b, wb_expect[1]))
                break
        # ---- MRS result and untouched registers
        if k in ('mrs', 'mrs_spsr'):
            got = r.get_rmode(op['rn'], post_cpsr & 0x1F)
            if k == 'mrs_spsr':
                want, m2 = pre_sp[SP[cur]], 0xFFFFFFFF
            else:
                want = pre_cpsr & CW.MRS_CPSR_MASK
                m2 = 0xFFFFFFFF if cur != 0x10 else 0xF8FF0000       # User mode: bits <9:6> (E, A, I, F) and <4:0> are UNKNOWN
            if (got ^ want) & m2:
                cls = 'privileged_read_loses_bits' if cur != 0x10 and not (got & ~want) else 'wrong_value'
                if not any(v['cls'] == cls and v['oracle'] == 'psr.mrs' for v in b.violations):
                    b.violate('psr.mrs', 'MRS', cls,
                              'MRS %s in mode %#x returned %#010x, architecture gives %#010x' % ('SPSR' if k == 'mrs_spsr' else 'CPSR', cur, got, want))
                if cls != 'privileged_read_loses_bits':
                    break
                mrs_known = True
        post_regs = M.regs_dict(arm)
        allowed = set(BK.phys(x, cur) for x in named) | set(BK.phys(x, post_cpsr & 0x1F) for x in named)
        for nme, v in pre_regs.items():
            if nme == 'PC':
                continue
            if post_regs[nme] != v and nme not in allowed:
                b.violate('psr.model', site, 'register_changed', '%s changed %s %#x -> %#x' % (k, nme, v, post_regs[nme]))
                break
        if real_violations():
            break
        changed = post_cpsr ^ pre_cpsr
        flds = ''.join(c for c, msk in (('M', 0x1F), ('I', 0x80), ('F', 0x40), ('A', 0x100), ('E', 0x200), ('f', 0xF8000000), ('g', 0xF0000)) if changed & msk)
        b.cover.add('psr|%s|%x|%d|%s|%s' % (label, cur, secure, flds, 'T' if thumb else 'A'))
        b.count('probe.op-' + k)
        # keep the machine executable: no IT state left over from a restored PSR (E may stay: fetches are little-endian regardless)
        if k == 'ret':
            r.cpsr.it = 0
            if r.cpsr.j:
                r.cpsr.j = 0
    return b


# =================================================================== hints

HINTS = ['nop', 'yield', 'wfe', 'wfi', 'sev']


def gen_hints(rng):
    if rng.random() < 0.5:
        # single-step state-diff cases
        cfg = {'arch_version': 7, 'have_security_ext': rng.random() < 0.5, 'have_virt_ext': False, 'have_lpae': False,
               'memory_system_architecture': 'PMSA', 'number_of_mpu_regions': 12}
        sysx = {}
        if rng.random() < 0.35:
            # Virtualization Extensions: WFI / WFE executed in a Non-secure PL1/PL0 mode may be trapped to Hyp mode (HCR.TWI / HCR.TWE)
            cfg.update(have_security_ext=True, have_virt_ext=True, memory_system_architecture='VMSA')
            sysx = {'scr': rng.choice([1, 1, 1, 0]), 'hcr': rng.getrandbits(2) << 13, 'hvbar': G.LOW + 0x800, 'hsctlr': rng.getrandbits(1) << 30}
        thumb = rng.getrandbits(1)
        mode = rng.choice(G.legal_modes(cfg))
        if mode == 'hyp':
            sysx['scr'] = 1
        regs = {'cpsr': G.random_cpsr(rng, cfg, mode=mode, thumb=thumb), 'pc': G.CODE + 4 * rng.randrange(64),
                'sys': dict({'sctlr': G.sctlr_value(m=0, u=1, te=thumb)}, **sysx), 'R': G.random_regfile(rng, cfg), 'spsr': G.random_spsrs(rng, cfg),
                'event_register': bool(rng.getrandbits(1))}
        seq = [{'hint': rng.choice(HINTS), 'wide': rng.getrandbits(1), 'cond': rng.choice([0xE, 0xE, rng.randrange(14)])} for _ in range(rng.randrange(1, 12))]
        core = {'config': cfg, 'devices': G.std_devices(high=False), 'regs': regs, 'words': [], 'force': None, 'no_poke': []}
        return {'scenario': 'hints', 'sub': 'step', 'cores': [core], 'seq': seq, 'thumb': thumb, 'events': [], 'max_ticks': 10 ** 6, 'stop_at_done': False}
    # wake-up / liveness: main = prologue ; WFI|WFE ; epilogue ; b .   with an interrupt some ticks later
    core, meta = build_program_case(rng, n_blocks=4, allow=('alu', 'mem', 'stack'))
    thumb = meta['thumb']
    hint = rng.choice(['wfi', 'wfi', 'wfe'])
    n = 3 if hint == 'wfi' else 2
    # insert the hint into the program text: rebuild code with the hint in the middle
    code = bytes.fromhex(core['devices'][1]['data']['0'])
    step = 2 if thumb else 4
    # find an instruction boundary: regenerate program words instead of slicing bytes
    mg_rng = random.Random(rng.getrandbits(32))
    mg = P.MainGen(mg_rng, thumb, meta['mode'] != 'usr', allow=('alu', 'mem', 'stack'))
    a = mg.generate(rng.randrange(1, 4))[:-1]
    bwords = mg.generate(rng.randrange(1, 4))
    hw = [T.hint(n)] if thumb else [A.hint(n)]
    words = a + hw + bwords
    code = emit(words, thumb)
    core['devices'][1]['data'] = {'0': code.hex()}
    core['done_pc'] = G.CODE + len(code) - step
    meta['main_hi'] = G.CODE + len(code)
    meta['wfi_pc'] = G.CODE + len(emit(a, thumb))
    meta['after_pc'] = meta['wfi_pc'] + (2 if thumb else 4)
    delay = rng.randrange(0, 60)
    kind = rng.choice(['irq', 'fiq'])
    events = [{'tick': len(a) + 1 + delay, 'core': 0, 'kind': kind}]
    if hint == 'wfe' and rng.random() < 0.5:
        events = [{'tick': len(a) + 1 + delay, 'core': 0, 'kind': 'sev'}]
    hl = sum(v[2] for v in meta['handlers'].values())
    return {'scenario': 'hints', 'sub': 'wake', 'hint': hint, 'cores': [core], 'meta': meta, 'events': events,
            'max_ticks': events[0]['tick'] + len(words) * 6 + hl + 80}


def run_hints(case):
    if case['sub'] == 'step':
        core = dict(case['cores'][0], words=[])
        b = StreamBoard(dict(case, cores=[core]), [])
        arm = b.cores[0].arm
        r = arm.registers
        thumb = case['thumb']
        for h in case['seq']:
            n = HINTS.index(h['hint'])
            if thumb:
                w = (0xF3AF8000 | n) if h['wide'] else (T.hint(n) << 16 | T.NOP)
            else:
                w = A.hint(n, cond=h['cond'])
            pre = M.full_state(arm, hidden=False)
            ev_pre = bool(r.event_register)
            core['words'].append(w)
            # the stream board would cancel sleeping at the next tick; look at the flags right after this one
            b.advance()
            if b.cores[0].dead:
                break
            post = M.full_state(arm, hidden=False)
            name = type(arm.executed_opcode).__name__
            site = name[:-2] if name[-2:] in ('A1', 'T1', 'T2') else name
            # Hyp trap (ARM ARM B1.14.1 / WFE, WFI pseudocode): only from Non-secure modes other than Hyp, only when the instruction would
            # otherwise wait — a WFE that finds the event register set just clears it
            cfgd = M.full_config(core['config'])
            m_pre = pre['cpsr'] & 0x1F
            nonsec = cfgd['have_security_ext'] and (pre.get('sys.scr', 0) & 1) and m_pre != 0x16
            passed0 = bool(thumb or h['cond'] == 0xE or _cond_passed(h['cond'], pre['cpsr']))         # (no IT blocks in these runs)
            if cfgd['have_virt_ext'] and nonsec and m_pre != 0x1a and passed0 and (
                    (h['hint'] == 'wfi' and (pre.get('sys.hcr', 0) >> 13) & 1) or (h['hint'] == 'wfe' and (pre.get('sys.hcr', 0) >> 14) & 1 and not ev_pre)):
                if (post['cpsr'] & 0x1F) != 0x1a or post['wfe'] != pre['wfe'] or post['wfi'] != pre['wfi']:
                    b.violate('hints.state', site, 'hyp_trap_not_taken', '%s in Non-secure mode %#x with HCR=%#x: mode %#x afterwards, wait flags %s/%s' % (
                        h['hint'], m_pre, pre.get('sys.hcr', 0), post['cpsr'] & 0x1F, post['wfi'], post['wfe']))
                    break
                b.cover.add('hint|%s|%s|hyp-trap' % (h['hint'], 'T' if thumb else 'A'))
                thumb = (post['cpsr'] >> 5) & 1
                continue
            placed = ('mem.1', 'mem.0') if cfgd['have_virt_ext'] else ('mem.1',)      # where the board places the word (after a Hyp trap: at the Hyp vector in the low page)
            diff = [k for k in post if post[k] != pre.get(k) and k not in ('R.PC', 'wfe', 'wfi', 'sys.event_register') + placed]
            if diff:
                b.violate('hints.state', site, 'state_changed', '%s (word %#x) changed %s' % (h['hint'], w, ', '.join('%s %r->%r' % (k, pre.get(k), post[k]) for k in diff[:3])))
                break
            passed = thumb or h['cond'] == 0xE or _cond_passed(h['cond'], pre['cpsr'])
            exp_wfi = h['hint'] == 'wfi' and passed
            exp_wfe = h['hint'] == 'wfe' and passed and not ev_pre
            exp_ev = False if (h['hint'] == 'wfe' and passed and ev_pre) else ev_pre
            if post['wfi'] != (exp_wfi or pre['wfi']) and h['hint'] != 'sev':
                b.violate('hints.state', site, 'wait_flag', 'WFI flag %s after %s (cond passed=%s)' % (post['wfi'], h['hint'], passed))
                break
            if post['wfe'] != (exp_wfe or pre['wfe']) and h['hint'] != 'sev':
                b.violate('hints.state', site, 'wait_flag', 'WFE flag %s after %s (event register was %s)' % (post['wfe'], h['hint'], ev_pre))
                break
            if h['hint'] != 'sev' and bool(post['sys.event_register']) != exp_ev:
                b.violate('hints.state', site, 'event_register', 'event register %s after %s (was %s)' % (post['sys.event_register'], h['hint'], ev_pre))
                break
            outcome = 'nie' if (h['hint'] in ('yield', 'sev') and passed) else ('sleep' if (exp_wfi or exp_wfe) else 'noop')
            b.cover.add('hint|%s|%s|%s' % (h['hint'], 'T2' if (thumb and h['wide']) else ('T1' if thumb else 'A1'), outcome))
            arm.is_wait_for_event = arm.is_wait_for_interrupt = False
        return b
    # wake-up / liveness
    meta = case['meta']
    b = Board(dict(case), [])
    mon = EntryMonitor(b, 0, report=True, oracle='hints.entry_model')
    rc = ReturnChecker(mon, meta)
    slept = {'t': None, 'woke': None, 'after': False}

    class Obs:
        def on_tick(self, bb, rec):
            arm = bb.cores[0].arm
            if rec['what'] == 'step' and rec['pre_pc'] == meta['wfi_pc'] and (arm.is_wait_for_interrupt or arm.is_wait_for_event):
                slept['t'] = rec['tick']
            if rec['what'] == 'step' and rec['pre_pc'] == meta['after_pc'] and slept['t'] is not None:
                slept['after'] = True
    b.observers = [mon, rc, Obs(), RangeMonitor(report=False)]
    b.run()
    if b.violations:
        return b
    fin = b.cores[0].finished
    if slept['t'] is None:
        # WFE with the event register already set, or the interrupt arrived first: no sleep happened — still must finish
        b.cover.add('hint|%s|nosleep|%s' % (case['hint'], 'fin' if fin else 'unfin'))
    if not fin:
        b.violate('hints.liveness', case['hint'], 'not_finished_after_wakeup', 'slept at tick %s; program not finished at tick %d (clock jumps %d, wakeups %d)' % (
            slept['t'], b.tick, b.stats.get('probe.clock-jump', 0), b.stats.get('probe.wakeup', 0)))
    elif slept['t'] is not None:
        if not slept['after']:
            b.violate('hints.liveness', case['hint'], 'did_not_resume_after_hint', 'the instruction after the %s was never executed' % case['hint'])
        else:
            b.cover.add('hint|%s|wake|%s|%s|%d' % (case['hint'], case['events'][0]['kind'], meta['mode'], meta['te']))
            b.count('probe.wfi-wakeups-completed')
    return b


def _cond_passed(cond, cpsr):
    n, z, c, v = (cpsr >> 31) & 1, (cpsr >> 30) & 1, (cpsr >> 29) & 1, (cpsr >> 28) & 1
    r = [z, c, n, v, c and not z, n == v, n == v and not z, 1][cond >> 1]
    r = bool(r)
    if cond & 1 and cond != 15:
        r = not r
    return r


# =================================================================== coproc

def gen_coproc(rng):
    sec = rng.random() < 0.7
    virt = sec and rng.random() < 0.4
    cfg = {'arch_version': 7, 'have_security_ext': sec, 'have_virt_ext': virt, 'have_lpae': False,
           'memory_system_architecture': 'VMSA' if virt else 'PMSA', 'number_of_mpu_regions': 12}
    thumb = rng.getrandbits(1)
    mode = rng.choice(G.legal_modes(cfg))
    scr = rng.getrandbits(1) if sec else 0
    if mode == 'hyp':
        scr = 1
    cp = rng.choice([0, 1, 2, 3, 4, 5, 6, 7, 8, 9, 12, 13])
    sys = {'sctlr': G.sctlr_value(m=0, u=1, te=thumb), 'scr': scr, 'hsctlr': thumb << 30,
           'cpacr': rng.choice([0, 0x0FFFFFFF, 0x05555555, rng.getrandbits(28)]), 'nsacr': rng.choice([0, 0x3FFF, rng.getrandbits(14)]),
           'hcptr': rng.choice([0, 0, 0x33FF, rng.getrandbits(14)]) if virt else 0, 'vbar': 0, 'mvbar': G.LOW + 0x400, 'hvbar': G.LOW + 0x800}
    regs = {'cpsr': G.random_cpsr(rng, cfg, mode=mode, thumb=thumb), 'pc': G.CODE, 'sys': sys, 'R': G.random_regfile(rng, cfg), 'spsr': G.random_spsrs(rng, cfg)}
    insn = rng.choice(['mcr', 'mrc', 'cdp', 'ldc', 'stc', 'mcrr', 'mrrc'])
    f = lambda n: rng.getrandbits(n)
    rt = rng.randrange(13)
    w = {'mcr': A.mcr(cp, f(3), rt, f(4), f(4), f(3)), 'mrc': A.mrc(cp, f(3), rt, f(4), f(4), f(3)), 'cdp': A.cdp(cp, f(4), f(4), f(4), f(4), f(3)),
         'ldc': A.ldc(cp, f(4), rng.randrange(13), f(6), 1, f(1), 0, 1), 'stc': A.ldc(cp, f(4), rng.randrange(13), f(6), 1, f(1), 0, 0),
         'mcrr': A.mcrr(cp, f(4), rt, (rt + 1) % 13, f(4), 0), 'mrrc': A.mcrr(cp, f(4), rt, (rt + 1) % 13, f(4), 1)}[insn]
    if thumb:
        w = (w & 0x0FFFFFFF) | 0xE0000000       # same encoding with the 0b1110 prefix in Thumb
    if rng.random() < 0.12:
        # CP14 ThumbEE configuration register: MCR/MRC p14, 6, Rt, c0, c0, 0 (TEECR) is privileged-only
        insn = rng.choice(['mcr', 'mrc'])
        cp = 14
        w = (A.mcr if insn == 'mcr' else A.mrc)(14, 6, rt, 0, 0, 0)
        insn = 'teecr_' + insn
    core = {'config': cfg, 'devices': G.std_devices(high=False), 'regs': regs, 'words': [w], 'force': None, 'no_poke': []}
    return {'scenario': 'coproc', 'cores': [core], 'insn': insn, 'cp': cp, 'thumb': thumb, 'events': [], 'max_ticks': 2, 'stop_at_done': False}


def coproc_model(cp, mode, sec, virt, scr, cpacr, nsacr, hcptr):
    """-> 'und' | 'accepted' | 'hyptrap' | 'unpredictable'"""
    secure = (not sec) or not (scr & 1) or mode == 0x16
    if sec and not secure and not (nsacr >> cp) & 1:
        return 'und'
    if not virt or mode != 0x1a:
        fld = (cpacr >> (2 * cp)) & 3
        if fld == 0:
            return 'und'
        if fld == 1 and mode == 0x10:
            return 'und'
        if fld == 2:
            return 'unpredictable'
    if sec and virt and not secure and (hcptr >> cp) & 1:
        return 'hyptrap' if mode != 0x1a else 'und'
    return 'accepted'


def run_coproc(case):
    core = case['cores'][0]
    b = StreamBoard(case, [])
    cfgd = M.full_config(core['config'])
    mon = EntryMonitor(b, 0, report=True, oracle='coproc.entry_model')
    b.observers = [mon, RangeMonitor(report=False)]
    arm = b.cores[0].arm
    r = arm.registers
    mode = r.cpsr.value & 0x1F
    pre = M.full_state(arm, hidden=False)
    if case['cp'] == 14:
        # TEECR: UNDEFINED from User mode, accepted (handed to the coprocessor hook) from privileged modes; HSTR.TTEE is kept 0
        want = 'und' if mode == 0x10 else 'accepted'
    else:
        want = coproc_model(case['cp'], mode, cfgd['have_security_ext'], cfgd['have_virt_ext'], r.scr.value, r.cpacr.value, r.nsacr.value, r.hcptr.value)
    b.advance()
    if b.cores[0].dead or b.violations:
        return b
    kinds = [k for t, k in mon.taken]
    nie = [k for k in b.stats if k.startswith('nie.')]
    got = 'hyptrap' if 'hyptrap' in kinds else ('und' if 'und' in kinds else ('accepted' if nie else 'executed'))
    secure = (not cfgd['have_security_ext']) or not (r.scr.value & 1) or mode == 0x16
    b.cover.add('coproc|%s|%s|%x|%d|%s' % (case['insn'], want, mode, secure, 'T' if case['thumb'] else 'A'))
    if want == 'unpredictable':
        return b
    if got != want:
        b.violate('coproc.model', case['insn'], 'expected_%s_got_%s' % (want, got), 'cp%d %s in mode %#x secure=%d cpacr=%#x nsacr=%#x hcptr=%#x: expected %s, got %s (%s)' % (
            case['cp'], case['insn'], mode, secure, r.cpacr.value, r.nsacr.value, r.hcptr.value, want, got, kinds or nie))
        return b
    if want == 'accepted':
        post = M.full_state(arm, hidden=False)
        diff = [k for k in post if post[k] != pre.get(k) and k not in ('R.PC', 'mem.1')]
        if diff:
            b.violate('coproc.model', case['insn'], 'state_changed_by_accepted_instruction', 'changed %s' % diff[:4])
    return b


# =================================================================== dispatch

def witness_mrs_case():
    cfg = {'arch_version': 7, 'have_security_ext': False, 'have_virt_ext': False, 'have_lpae': False, 'memory_system_architecture': 'PMSA', 'number_of_mpu_regions': 12}
    regs = {'cpsr': 0xf00d00d3, 'pc': G.CODE, 'sys': {'sctlr': G.sctlr_value(m=0, a=0, u=1, te=0)}, 'R': {}, 'spsr': {}}
    core = {'config': cfg, 'devices': G.std_devices(high=False), 'regs': regs, 'words': [], 'force': None, 'no_poke': []}
    op = {'op': 'mrs', 'v': 0, 'mask': 0, 'rn': 0, 'imm12': 0, 'imod': 0, 'aif': 0, 'mode': None, 'e': 0, 't1': 0, 'setmode': 'svc', 'bits': 0}
    return {'scenario': 'psr_walk', 'cores': [core], 'ops': [op], 'thumb': 0, 'events': [], 'max_ticks': 10 ** 9, 'stop_at_done': False}


def gen(item, rng, tier):
    if item['k'] == 'witness-mrs':
        return witness_mrs_case()
    return {'irq_return': gen_irq_return, 'psr_walk': gen_psr_walk, 'hints': gen_hints, 'coproc': gen_coproc}[item['k']](rng)


def run(case):
    p0 = M.env.print_count[0]
    s = case['scenario']
    extra_ticks = 0
    if s == 'irq_return':
        b, bA = run_irq_return(case)
        extra_ticks = bA.tick
        for k, v in bA.stats.items():
            if k.startswith('exc.'):
                b.stats[k] = b.stats.get(k, 0) + v
    elif s == 'psr_walk':
        b = run_psr_walk(case)
    elif s == 'hints':
        b = run_hints(case)
    else:
        b = run_coproc(case)
    b.count('prints', M.env.print_count[0] - p0)
    b.count('probe.scenario-' + s)
    return {'violations': b.violations, 'cover': b.cover, 'stats': b.stats, 'ticks': b.tick + extra_ticks, 'digest': b.digest(),
            'interesting': bool(b.violations)}


def sample(case, res):
    c = case['cores'][0]
    s = case['scenario']
    d = {'scenario': s, 'config': c['config'], 'violations': res['violations'][:2], 'ticks': res['ticks']}
    if s == 'irq_return' or (s == 'hints' and case.get('sub') == 'wake'):
        d.update(meta={k: v for k, v in case['meta'].items() if k != 'handlers'}, events=case['events'][:8], main_code=c['devices'][1]['data']['0'][:160],
                 clean_ticks=case.get('clean_ticks'))
    elif s == 'psr_walk':
        d.update(start_cpsr=hex(c['regs']['cpsr']), ops=[{k: (hex(v) if k == 'v' else v) for k, v in o.items() if k in ('op', 'v', 'mask', 'mode', 'imod', 'aif')} for o in case['ops'][:10]])
    elif s == 'hints':
        d.update(seq=case['seq'][:8], start_cpsr=hex(c['regs']['cpsr']))
    else:
        d.update(insn=case['insn'], cp=case['cp'], word=hex(c['words'][0]), start_cpsr=hex(c['regs']['cpsr']), sys={k: hex(v) for k, v in c['regs']['sys'].items()})
    return d


def shrink(case):
    s = case['scenario']
    if s == 'irq_return':
        ev = case['events']
        for i in range(len(ev)):
            yield dict(case, events=ev[:i] + ev[i + 1:])
        for i in range(len(ev)):
            if ev[i]['tick'] > 0:
                yield dict(case, events=ev[:i] + [dict(ev[i], tick=ev[i]['tick'] // 2)] + ev[i + 1:])
    elif s == 'psr_walk':
        ops = case['ops']
        n = len(ops)
        res = run(case)
        size = max(1, n // 2)
        while size >= 1:
            for i in range(0, n, size):
                yield dict(case, ops=ops[:i] + ops[i + size:])
            if size == 1:
                break
            size //= 2
    elif s == 'hints' and case.get('sub') == 'step':
        q = case['seq']
        for i in range(len(q)):
            if len(q) > 1:
                yield dict(case, seq=q[:i] + q[i + 1:])
