"""C16 — memory hub.  Scenario 'hub': seeded device lists (odd sizes, adjacent, gapped, overlapping, at address 0, ending at
2^32, above 2^32) and histories of reads/writes of 1/2/4/8 bytes concentrated on device edges, driven through three
paths: the hub API, the CPU accessors (mem_a_*) and executed LDR/STR instructions with the MPU off.  Oracle: a byte-map
reference model (ordered device list, first match wins) compared after every operation, plus size / spill / host-error
invariants for accesses that run past the end of a device."""
import random

from sim import machine as M
from sim.asm import A
from sim.machine import RAM, MemoryController

PROPERTY = 'C16'
LEVEL = 'exploration'
BUDGET_S = {'quick': 90, 'thorough': 1500}
RULE = ("device lists of 1-6 RAMs with sizes from {1,2,3,4,5,7,8,9,15,16,17,255,256,4096} laid out adjacent / gapped / overlapping around bases "
        "{0, 0x1000, 0x7FFF0000, up to 2^32, above 2^32}; histories of 50-500 reads/writes (unique write values) aimed at begin+-8 and end+-8 of every "
        "device through the hub API, mem_a accessors and executed LDR/STR; some layouts have windows smaller/larger than the RAM behind them, two windows onto "
        "one RAM, a device > 16 MiB, and re-configuration between accesses (window moved, controllers swapped, controller added or removed); byte-map model "
        "compared after every op. distinct_nontrivial = distinct "
        "(layout class, size, position class in {inside, last-bytes, straddle-end, hole, overlap, above-4G, before-begin}, read/write, path) tuples.")
ASSUMPTIONS = [
    "for an access that starts inside a device and runs past its end the model only requires: no resize, no other device changes, no host error, bytes before the "
    "access unchanged; the in-device tail may be old or new data and the read value is not compared",
    "CPU paths use naturally aligned addresses (alignment policy is C13)",
]

SIZES = [1, 2, 3, 4, 5, 7, 8, 9, 15, 16, 17, 255, 256, 4096]
CODE = 0x70000000


def plan(tier, seed):
    # 'hub-long': the same kind of history with one burst of several million identical accesses in it (history LENGTH is part of "every sequence")
    return [{'k': 'hub'}] * (30000 if tier == 'quick' else 600000) + [{'k': 'hub-long'}] * (4 if tier == 'quick' else 64)


def gen(item, rng, tier):
    base = rng.choice([0, 0x1000, 0x7FFF0000, None, 0x100000000, 0xFFFFF000])
    n = rng.randrange(1, 7) if item['k'] != 'hub-long' else rng.randrange(2, 5)
    sizes = [rng.choice(SIZES) for _ in range(n)]
    if base is None:
        base = 0x100000000 - sum(sizes)          # the last device ends exactly at 2^32
        style = 'adjacent'
    else:
        style = rng.choice(['adjacent', 'gapped', 'overlap', 'mixed']) if item['k'] != 'hub-long' else 'overlap'
    devs = []
    cur = base
    for s in sizes:
        st = style if style != 'mixed' else rng.choice(['adjacent', 'gapped', 'overlap'])
        if st == 'gapped':
            cur += rng.randrange(1, 9)
        elif st == 'overlap' and devs:
            cur = max(base, cur - rng.randrange(1, min(8, s) + 1))
        fill = bytes(rng.getrandbits(8) for _ in range(min(s, 64)))
        d = {'begin': cur, 'end': cur + s, 'fill': fill.hex()}
        if rng.random() < 0.2:
            d['rec'] = 1
        elif rng.random() < 0.12:
            d['keep'] = 1          # a device that keeps the data objects it is handed (a FIFO, a latch): they are its own from then on
        if rng.random() < 0.08:
            # the controller window and the device behind it need not have the same size
            d['ram_size'] = max(1, s + rng.choice([-3, -1, 1, 4, 16]))
        elif devs and rng.random() < 0.06:
            # a second window onto the SAME device as an earlier controller: a write through one window must be visible through the other
            k0 = rng.randrange(len(devs))
            if 'alias_of' not in devs[k0]:
                d = {'begin': cur, 'end': cur + s, 'alias_of': k0}
        devs.append(d)
        cur += s
    big = rng.random() < 0.04
    if big:
        # one device larger than 16 MiB: offsets at and beyond 2^24 inside a single device
        bsz = (1 << 24) + rng.choice([0x10, 0x100, 0x1000])
        bb = rng.choice([0x40000000, 0x100000000, 0x20000000])
        devs = [d for d in devs if d['end'] <= bb or d['begin'] >= bb + bsz][:2]
        devs.append({'begin': bb, 'end': bb + bsz})          # zero-filled: contents only arrive through accesses
    ops = []
    nops = rng.choice([50, 120, 300, 500]) if not big else 40
    for i in range(nops):
        d = rng.choice(devs)
        k = rng.random()
        if big and d['end'] - d['begin'] > (1 << 20) and k < 0.6:
            addr = d['begin'] + (1 << 24) + rng.randrange(-12, 12)
        elif k < 0.35:
            addr = d['end'] + rng.randrange(-9, 9)
        elif k < 0.6:
            addr = d['begin'] + rng.randrange(-9, 9)
        elif k < 0.9:
            addr = rng.randrange(d['begin'], d['end'])
        else:
            addr = rng.choice([0, 0xFFFFFFFF, 0xFFFFFFFC, 0x100000000, rng.getrandbits(33)])
        addr = max(0, addr)
        size = rng.choice([1, 2, 4, 8])
        path = rng.choice(['hub', 'hub', 'mem_a', 'insn', 'mem_u'])
        if path == 'mem_u':
            # the CPU's unaligned accessor: an unaligned halfword/word goes byte by byte, each byte with its own device lookup
            size = rng.choice([2, 4])
            if addr + size > 0x100000000:
                path = 'hub'
        elif path != 'hub':
            addr &= ~(size - 1)
            if addr > 0xFFFFFFFF:
                path = 'hub'
        # unique, attributable write values
        val = ((i + 1) * 0x0101010101010101 ^ rng.getrandbits(64)) & ((1 << (8 * size)) - 1)
        ops.append({'op': rng.choice(['r', 'w', 'w']), 'path': path, 'addr': addr, 'size': size, 'value': val})
        if path == 'hub' and rng.random() < 0.12:
            # the hub's third entry point: set_bits(descriptor, size, lowest bit, width, value) - what a table walk uses to set an Access flag in a
            # descriptor.  A declared-unimplemented hook on this tree; whatever it becomes, it is an access like any other (same bytes, same bounds)
            ops[-1].update(op='setbits', size=rng.choice([4, 4, 8, 2, 1]), ind=rng.choice([4, 10, 18, 28, 0, 7]), amount=rng.choice([1, 1, 2]), value=rng.choice([1, 1, 0, 3]))
            ops[-1]['ind'] %= 8 * ops[-1]['size']
            ops[-1]['amount'] = min(ops[-1]['amount'], 8 * ops[-1]['size'] - ops[-1]['ind'])
            ops[-1]['value'] &= (1 << ops[-1]['amount']) - 1
        if path == 'hub' and rng.random() < 0.3:
            ops[-1]['ns'] = 1          # the Non-secure attribute of the descriptor is not part of the address
        if path in ('mem_a', 'mem_u') or (path == 'insn' and size in (2, 4)):
            ops[-1]['be'] = int(rng.random() < 0.15)           # CPSR.E=1: the same bytes, most significant first
        if path == 'insn' and size in (1, 2, 4) and rng.random() < 0.12:
            # the same load/store, but refused by the MPU (no region covers the address, no background region): a Data Abort is taken, nothing is
            # transferred - and nothing the aborted access left behind may change what later accesses do (byte order of the access included)
            ops[-1]['denied'] = 1
            ops[-1]['be'] = int(rng.random() < 0.6)
        elif path == 'insn' and size == 4 and not ops[-1].get('be') and addr + 16 <= 0x100000000 and rng.random() < 0.25:        # (address wrap inside LDM/STM is an instruction matter, C03)
            # LDM/STM r1,{r2..}: 2-4 consecutive word accesses, each with its own device lookup (may run across a device end or past 2^32)
            ops[-1]['multi'] = rng.randrange(2, 5)
            ops[-1]['value'] = ((i + 1) * 0x01010101010101010101010101010101 ^ rng.getrandbits(128)) & ((1 << (32 * ops[-1]['multi'])) - 1)
    if not big and rng.random() < 0.2:
        # re-configuration inside the history: a window is moved, two controllers swap places in the list, a controller is added late
        for _ in range(rng.randrange(1, 5)):
            k = rng.random()
            at = rng.randrange(1, len(ops))
            if k < 0.35:
                rc = {'op': 'move', 'dev': rng.randrange(len(devs)), 'delta': rng.choice([-0x40, -8, -1, 1, 4, 0x40, 0x1000])}
            elif k < 0.45:
                rc = {'op': 'remove', 'dev': rng.randrange(len(devs))}
            elif k < 0.75 and len(devs) > 1:
                a, b = rng.sample(range(len(devs)), 2)
                rc = {'op': 'swap', 'a': a, 'b': b}
            else:
                s2 = rng.choice(SIZES)
                rc = {'op': 'add', 'begin': cur + rng.choice([0, 0, 3, -2]), 'size': s2, 'fill': bytes(rng.getrandbits(8) for _ in range(16)).hex()}
                cur += s2 + 3
            ops.insert(at, rc)
    if not big and item['k'] != 'hub-long' and rng.random() < 0.25:
        # checkpoints: the whole hub is deep-copied (twice in a row half of the time) and the copies are kept, never run; whatever the live machine -
        # or a later copy - stores afterwards must leave every byte of every kept copy as it was when the copy was made
        for _ in range(rng.choice([1, 2, 3])):
            at = rng.randrange(1, len(ops))
            ops.insert(at, {'op': 'snap'})
            if rng.random() < 0.5:
                ops.insert(at + rng.choice([1, 1, 2]), {'op': 'snap'})
    if item['k'] == 'hub-long':
        ops = [o for o in ops if 'addr' in o][:60]
        hot = [o for o in ops if o['path'] == 'hub'] or ops
        for at in sorted(rng.sample(range(1, len(ops)), 2), reverse=True):
            h = rng.choice(hot)
            ops.insert(at, {'op': 'burst', 'path': 'hub', 'addr': h['addr'], 'size': h['size'], 'value': 0,
                            'n': (1 << 22) + rng.randrange(1, 1 << 18) if tier == 'quick' else rng.choice([1 << 22, 1 << 23, 1 << 24]) + rng.randrange(1, 1 << 18)})
    how = rng.choice(['append', 'add_memory', 'memory_list'])
    return {'scenario': 'hub', 'style': style, 'devices': devs, 'ops': ops, 'via_add_memory': how == 'add_memory', 'via_memory_list': how == 'memory_list'}


class Model:
    def __init__(self, devs):
        self.devs = []                                                             # (window begin, window end, device bytes)
        for d in devs:
            self.devs.append((d['begin'], d['end'], self.devs[d['alias_of']][2] if 'alias_of' in d else bytearray(_fill(d))))

    def find(self, addr):
        for i, (b, e, _) in enumerate(self.devs):
            if b <= addr < e:
                return i
        return None


def _fill(d):
    size = d.get('ram_size', d['end'] - d['begin'])
    assert 'alias_of' not in d
    f = bytes.fromhex(d.get('fill') or '') or b'\0'
    return (f * (size // len(f) + 1))[:size]


def position_class(model, addr, size):
    i = model.find(addr)
    if i is None:
        for b, e, _ in model.devs:
            if addr < b < addr + size:
                return 'before-begin'
        return 'above-4G-hole' if addr > 0xFFFFFFFF else 'hole'
    b, e, _ = model.devs[i]
    over = sum(1 for bb, ee, _ in model.devs if bb <= addr < ee) > 1
    if addr + size > e or (addr - b) + size > len(model.devs[i][2]):
        return 'straddle-end' if (addr - b) < len(model.devs[i][2]) else 'beyond-device-in-window'
    if over:
        return 'overlap'
    if addr > 0xFFFFFFFF:
        return 'above-4G'
    if addr + size == e:
        return 'last-bytes'
    return 'inside'


def run(case):
    from armulator.armv6.address_descriptor import AddressDescriptor
    p0 = M.env.print_count[0]
    viol, cover, stats = [], set(), {}

    def count(k, n=1):
        stats[k] = stats.get(k, 0) + n

    cfg = {'arch_version': 7, 'memory_system_architecture': 'PMSA', 'have_security_ext': False}
    arm = M.new_arm({'config': cfg, 'devices': [], 'reset': True})
    r = arm.registers
    r.sctlr.m = 0
    r.sctlr.a = 0
    r.cpsr.value = 0x1D3
    model = Model(case['devices'])
    rams = []
    from_list = bool(case.get('via_memory_list')) and not any('alias_of' in d or 'ram_size' in d or d.get('rec') or d.get('keep') for d in case['devices'])
    if from_list:
        # the whole hub built the way ArmV6.__init__ builds it from a configuration file: MemoryControllerHub.from_memory_list(), in the listed order
        arm.mem = type(arm.mem).from_memory_list([{'mem_type': 'RAM', 'beginning': d['begin'], 'end': d['end']} for d in case['devices']])
    for j, d in enumerate(case['devices']):
        if from_list:
            ram = arm.mem.memories[j].mem if j < len(arm.mem.memories) else RAM(d['end'] - d['begin'])
            if d.get('fill'):
                f = _fill(d)
                ram.memory_array[0:len(f)] = f
            rams.append(ram)
            continue
        if 'alias_of' in d:
            ram = rams[d['alias_of']]
            arm.mem.memories.append(MemoryController(ram, d['begin'], d['end']))
            rams.append(ram)
            continue
        if case.get('via_add_memory') and 'ram_size' not in d:
            # the library's own construction path (what from_memory_list() does for a configuration file)
            arm.mem.add_memory('RAM', d['begin'], d['end'])
            ram = arm.mem.memories[-1].mem
        else:
            # a fifth of the devices record the device-level calls they receive (a device need not be a RAM: for a latch or a read-to-clear register
            # a store that first reads, or that is skipped because the bytes already match, is a different access)
            ram = (M.RecRAM if d.get('rec') else (M.KeepRAM if d.get('keep') else RAM))(d.get('ram_size', d['end'] - d['begin']))
            arm.mem.memories.append(MemoryController(ram, d['begin'], d['end']))
        if d.get('fill'):
            f = _fill(d)
            ram.memory_array[0:len(f)] = f
        rams.append(ram)
    for j, (d, ram) in enumerate(zip(case['devices'], rams)):
        if 'alias_of' not in d and len(ram.memory_array) != d.get('ram_size', d['end'] - d['begin']) and not viol:
            # a device the library built for a configured bank holds exactly the bytes the bank declares: no hidden storage behind its end
            viol.append({'oracle': 'hub.model', 'site': 'construction', 'cls': 'device_size_differs_from_bank', 'tick': 0,
                         'detail': 'bank [%#x,%#x): the device has %d bytes' % (d['begin'], d['end'], len(ram.memory_array))})
    code = RAM(0x100)
    arm.mem.memories.append(MemoryController(code, CODE, CODE + 0x100))
    layout = '%s/%d' % (case['style'], len(case['devices']))
    len0 = [len(x.memory_array) for x in rams]

    def check_all(op, idx, touched):
        for j, ((b, e, mb), ram) in enumerate(zip(model.devs, rams)):
            if len(ram.memory_array) != len0[j]:
                viol.append({'oracle': 'hub.model', 'site': op['path'] + ':' + op['op'], 'cls': 'device_resized', 'tick': idx,
                             'detail': 'device %d [%#x,%#x) now has %d bytes after %s size %d at %#x' % (j, b, e, len(ram.memory_array), op['op'], op['size'], op['addr'])})
                return False
            if e - b > (1 << 20):
                # very large device: compare its length (above) and the windows the history can reach
                lo = (1 << 24) - 64
                real_tail = bytes(ram.memory_array[lo:e - b]).ljust(e - b - lo, b'\0')      # bytes the device has not materialised read as zero
                same = ram.memory_array[:64] == mb[:64] and real_tail == bytes(mb[lo:])
                diff_at = None if same else next(x for x in list(range(64)) + list(range(lo, e - b)) if (ram.memory_array[x] if x < len(ram.memory_array) else 0) != mb[x])
            else:
                same = bytes(ram.memory_array) == bytes(mb)
                diff_at = None if same else next((x for x in range(min(len(mb), len(ram.memory_array))) if ram.memory_array[x] != mb[x]), 0)
            if not same:
                k = diff_at
                cls = 'wrong_bytes_written' if (j == touched or touched == -1) else 'spill_into_other_device'
                viol.append({'oracle': 'hub.model', 'site': op['path'] + ':' + op['op'], 'cls': cls, 'tick': idx,
                             'detail': 'device %d [%#x,%#x) byte +%d is %#x, model %#x after %s size %d at %#x' % (
                                 j, b, e, k, ram.memory_array[k] if k < len(ram.memory_array) else 0, mb[k], op['op'], op['size'], op['addr'])})
                return False
        return True

    ticks = 0
    ctrls = list(arm.mem.memories[:len(rams)])           # parallel to model.devs / rams / len0
    snaps = []

    def snaps_intact(idx):
        for k_, (hub, was) in enumerate(snaps):
            now = [bytes(mc.mem.memory_array) for mc in hub.memories]
            if now != was:
                j = next(i for i, (x, y) in enumerate(zip(now, was)) if x != y)
                viol.append({'oracle': 'hub.model', 'site': 'snapshot', 'cls': 'kept_copy_changed', 'tick': idx,
                             'detail': 'checkpoint %d of the hub (made earlier, never run): device %d changed after op %d' % (k_, j, idx)})
                return False
        return True
    keepers = [x for x in rams if hasattr(x, 'kept')]
    for idx, op in enumerate(case['ops']):
        bad_keep = next(((x, o, was) for x in keepers for o, was in x.kept if bytes(o) != was), None)
        if bad_keep is not None:
            viol.append({'oracle': 'hub.model', 'site': 'device', 'cls': 'data_object_changed_after_the_store', 'tick': idx,
                         'detail': 'a data object handed to a device by an earlier store (%s) reads %s before op %d' % (bad_keep[2].hex(), bytes(bad_keep[1]).hex(), idx)})
            break
        if snaps and not snaps_intact(idx):
            break
        if op['op'] == 'snap':
            import copy
            hub = copy.deepcopy(arm.mem)
            snaps.append((hub, [bytes(mc.mem.memory_array) for mc in hub.memories]))
            count('fault.hub-checkpoint')
            continue
        if op['op'] in ('move', 'swap', 'add', 'remove'):
            count('fault.reconfigure-' + op['op'])
            if op['op'] == 'remove' and op['dev'] < len(ctrls) and ctrls[op['dev']] in arm.mem.memories and len(arm.mem.memories) > 2:
                arm.mem.memories.remove(ctrls[op['dev']])
                model.devs[op['dev']] = (0, 0, model.devs[op['dev']][2])          # no window any more; the device bytes stay as they are
            elif op['op'] == 'move' and op['dev'] < len(ctrls) and ctrls[op['dev']] in arm.mem.memories:
                j = op['dev']
                b, e, mb = model.devs[j]
                if b + op['delta'] >= 0 and not (b + op['delta'] < CODE + 0x100 and CODE < e + op['delta']):
                    ctrls[j].beginning += op['delta']
                    ctrls[j].end += op['delta']
                    model.devs[j] = (b + op['delta'], e + op['delta'], mb)
            elif op['op'] == 'swap' and max(op['a'], op['b']) < len(case['devices']) and ctrls[op['a']] in arm.mem.memories and ctrls[op['b']] in arm.mem.memories:
                a, b = op['a'], op['b']
                ia, ib = arm.mem.memories.index(ctrls[a]), arm.mem.memories.index(ctrls[b])
                arm.mem.memories[ia], arm.mem.memories[ib] = arm.mem.memories[ib], arm.mem.memories[ia]
                for lst in (model.devs, rams, len0, ctrls):
                    lst[a], lst[b] = lst[b], lst[a]
            elif op['op'] == 'add' and not (op['begin'] < CODE + 0x100 and CODE < op['begin'] + op['size']):
                arm.mem.add_memory('RAM', op['begin'], op['begin'] + op['size'])
                ram = arm.mem.memories[-1].mem
                f = _fill({'begin': op['begin'], 'end': op['begin'] + op['size'], 'fill': op['fill']})
                ram.memory_array[0:len(f)] = f
                # the code window was registered before it and wins where they overlap (excluded above)
                model.devs.append((op['begin'], op['begin'] + op['size'], bytearray(f)))
                rams.append(ram)
                len0.append(len(ram.memory_array))
                ctrls.append(arm.mem.memories[-1])
            continue
        addr, size, path = op['addr'], op['size'], op['path']
        if op['op'] == 'burst':
            # millions of identical reads through the hub API: nothing may change, neither the bytes nor which device answers later accesses
            desc = AddressDescriptor()
            desc.paddress.physicaladdress = addr
            mem = arm.mem
            count('fault.burst')
            try:
                for _ in range(op['n']):
                    mem[desc, size]
            except Exception as e:
                name, site = M.exc_site(e)
                viol.append({'oracle': 'hub.model', 'site': site, 'cls': 'host_error:' + name, 'tick': idx, 'detail': '%r in a burst of %d reads at %#x' % (e, op['n'], addr)})
                break
            ticks += op['n']
            op = dict(op, op='r')
        if op['op'] == 'setbits':
            desc = AddressDescriptor()
            desc.paddress.physicaladdress = addr
            pc = position_class(model, addr, size)
            try:
                arm.mem.set_bits(desc, size, op['ind'], op['amount'], op['value'])
            except NotImplementedError:
                count('nie.hub.set_bits')
                if not check_all(op, idx, -1):
                    break
                continue
            except Exception as e:
                name, site = M.exc_site(e)
                viol.append({'oracle': 'hub.model', 'site': site, 'cls': 'host_error:' + name, 'tick': idx, 'detail': '%r on set_bits size %d at %#x (%s)' % (e, size, addr, pc)})
                break
            ticks += 1
            cover.add('%s|%d|%s|setbits|hub' % (case['style'], size, pc))
            count('fault.edge-access' if pc in ('straddle-end', 'hole', 'before-begin', 'above-4G-hole') else 'probe.plain-access')
            pi = model.find(addr)
            if pi is not None:
                b0, e0, mb = model.devs[pi]
                off = addr - b0
                if off + size <= len(mb):
                    item = int.from_bytes(mb[off:off + size], 'little')
                    msk = ((1 << op['amount']) - 1) << op['ind']
                    item = (item & ~msk) | (op['value'] << op['ind'] & msk)
                    mb[off:off + size] = item.to_bytes(size, 'little')
                elif off < len(mb):
                    mb[off:len(mb)] = rams[pi].memory_array[off:len(mb)]          # weak rule past the end: the in-device tail may be old or new
            if not check_all(op, idx, pi if pi is not None else -1):
                break
            continue
        pc = position_class(model, addr, size)
        cover.add('%s|%d|%s|%s|%s' % (case['style'], size, pc, op['op'], path))
        count('probe.pos-' + pc)
        count('fault.edge-access' if pc in ('straddle-end', 'hole', 'before-begin', 'above-4G-hole') else 'probe.plain-access')
        i = model.find(addr)
        straddle = i is not None and addr + size > model.devs[i][1]
        got = None
        prim = None
        for x in rams:
            if hasattr(x, 'log'):
                del x.log[:]
        try:
            if path == 'hub':
                desc = AddressDescriptor()
                desc.paddress.physicaladdress = addr
                desc.paddress.ns = op.get('ns', 0)
                if op['op'] == 'r':
                    got = arm.mem[desc, size]
                else:
                    arm.mem[desc, size] = op['value']
                if idx % 3 == 0:
                    # the caller's descriptor is an input: used again, unchanged, it must name the same bytes
                    prim = {id(x): len(x.log) for x in rams if hasattr(x, 'log')}
                    again = arm.mem[desc, size]
                    first = got if op['op'] == 'r' else None
                    i0 = model.find(addr)
                    inside = i0 is not None and (addr - model.devs[i0][0]) + size <= len(model.devs[i0][2])
                    want2 = first if first is not None else ((op['value'] & ((1 << (8 * size)) - 1)) if inside else None)
                    if i0 is None:
                        want2 = 0
                    if (inside or i0 is None) and want2 is not None and again != want2:
                        viol.append({'oracle': 'hub.model', 'site': 'hub:reuse', 'cls': 'descriptor_reuse_differs', 'tick': idx,
                                     'detail': 'second access through the same descriptor object at %#x size %d returned %#x, expected %#x' % (addr, size, again, want2)})
                        break
            elif path in ('mem_a', 'mem_u'):
                r.cpsr.e = op.get('be', 0)
                getter, setter = (arm.mem_a_get, arm.mem_a_set) if path == 'mem_a' else (arm.mem_u_get, arm.mem_u_set)
                if op['op'] == 'r':
                    got = getter(addr, size)
                else:
                    setter(addr, size, op['value'])
                r.cpsr.e = 0
            else:
                r.set(1, addr)
                r.set(0, op['value'] & 0xFFFFFFFF)
                load = op['op'] == 'r'
                nm = op.get('multi', 0)
                if nm:
                    for q in range(nm):
                        r.set(2 + q, (op['value'] >> (32 * q)) & 0xFFFFFFFF)
                    w = A.ldstm(load, 1, ((1 << nm) - 1) << 2, p=0, u=1, w=0)
                elif size == 8:
                    r.set(2, op['value'] & 0xFFFFFFFF)
                    r.set(3, (op['value'] >> 32) & 0xFFFFFFFF)
                    w = A.ldsth('ldrd' if load else 'strd', 2, 1, 0)
                elif size == 4:
                    w = A.ldst(load, 0, 1, 0)
                elif size == 1:
                    w = A.ldst(load, 0, 1, 0, byte=1)
                else:
                    w = A.ldsth('ldrh' if load else 'strh', 0, 1, 0)
                code.memory_array[0:4] = w.to_bytes(4, 'little')
                r.branch_to(CODE)
                r.cpsr.e = op.get('be', 0)
                if op.get('denied') and not (CODE - 8 <= addr < CODE + 0x100):
                    # MPU on for this one step: region 0 = the code window (full access), nothing else, SCTLR.BR = 0
                    r.drsrs[0].value, r.drbars[0], r.dracrs[0].value = 1 | 7 << 1, CODE, 3 << 8
                    r.sctlr.m, r.sctlr.br = 1, 0
                    before = [bytes(x.memory_array) for x in rams]
                    arm.emulate_cycle()
                    r.sctlr.m = 0
                    r.drsrs[0].value = 0
                    count('fault.mpu-deny')
                    if r.cpsr.m != 0x17:
                        viol.append({'oracle': 'hub.model', 'site': 'insn:denied', 'cls': 'no_abort', 'tick': idx, 'detail': 'access at %#x outside every MPU region: mode %#x after the step' % (addr, r.cpsr.m)})
                        break
                    if before != [bytes(x.memory_array) for x in rams]:
                        viol.append({'oracle': 'hub.model', 'site': 'insn:denied', 'cls': 'denied_access_wrote', 'tick': idx, 'detail': 'aborted access at %#x changed device bytes' % addr})
                        break
                    r.cpsr.value = 0x1D3
                    ticks += 1
                    continue
                arm.emulate_cycle()
                r.cpsr.e = 0
                ticks += 1
                if r.cpsr.m != 0x13:
                    viol.append({'oracle': 'hub.model', 'site': 'insn:' + op['op'], 'cls': 'unexpected_exception', 'tick': idx,
                                 'detail': 'LDR/STR at %#x size %d took an exception (mode %#x) with the MPU off' % (addr, size, r.cpsr.m)})
                    break
                if load and nm:
                    got = sum(r.get(2 + q) << (32 * q) for q in range(nm))
                elif load:
                    got = r.get(0) if size != 8 else (r.get(2) | r.get(3) << 32)
        except Exception as e:
            name, site = M.exc_site(e)
            viol.append({'oracle': 'hub.model', 'site': site, 'cls': 'host_error:' + name, 'tick': idx,
                         'detail': '%r on %s %s size %d at %#x (%s)' % (e, path, op['op'], size, addr, pc)})
            break
        ticks += 1
        # model step.  LDRD/STRD is two word accesses (each with its own device lookup); everything else is one access
        val_eff, got_eff = op['value'], got
        if op.get('be'):
            rev = lambda x: int.from_bytes((x & ((1 << (8 * size)) - 1)).to_bytes(size, 'big'), 'little')
            val_eff, got_eff = rev(op['value']), (None if got is None else rev(got))
        parts = [(addr, size, val_eff, got_eff)]
        if path == 'mem_u' and addr % size:
            parts = [(addr + q, 1, (val_eff >> (8 * q)) & 0xFF, None if got_eff is None else (got_eff >> (8 * q)) & 0xFF) for q in range(size)]
        if path == 'insn' and op.get('multi'):
            parts = [((addr + 4 * q) & 0xFFFFFFFF, 4, (op['value'] >> (32 * q)) & 0xFFFFFFFF, None if got is None else (got >> (32 * q)) & 0xFFFFFFFF) for q in range(op['multi'])]
        elif path == 'insn' and size == 8:
            parts = [(addr, 4, op['value'] & 0xFFFFFFFF, None if got is None else got & 0xFFFFFFFF),
                     ((addr + 4) & 0xFFFFFFFF, 4, (op['value'] >> 32) & 0xFFFFFFFF, None if got is None else (got >> 32) & 0xFFFFFFFF)]
        stop = False
        touched = []
        for paddr, psize, pval, pgot in parts:
            pi = model.find(paddr)
            # 'straddle' is judged against the device behind the window (its size may differ from the window's)
            pstraddle = pi is not None and (paddr - model.devs[pi][0]) + psize > len(model.devs[pi][2])
            touched.append(pi)
            if op['op'] == 'w':
                if pi is not None:
                    b, e, mb = model.devs[pi]
                    data = (pval & ((1 << (8 * psize)) - 1)).to_bytes(psize, 'little')
                    off = paddr - b
                    if not pstraddle:
                        mb[off:off + psize] = data
                    elif off < len(mb):
                        # weak rule: the in-device tail may be old or new data; adopt what the device holds
                        mb[off:len(mb)] = rams[pi].memory_array[off:len(mb)]
            else:
                if pi is None:
                    if pgot != 0:
                        viol.append({'oracle': 'hub.model', 'site': path + ':r', 'cls': 'unmapped_read_nonzero', 'tick': idx,
                                     'detail': 'read of %d bytes at unmapped %#x returned %#x' % (psize, paddr, pgot)})
                        stop = True
                        break
                elif not pstraddle:
                    b, e, mb = model.devs[pi]
                    want = int.from_bytes(mb[paddr - b:paddr - b + psize], 'little')
                    if pgot != want:
                        viol.append({'oracle': 'hub.model', 'site': path + ':r', 'cls': 'wrong_read_value', 'tick': idx,
                                     'detail': 'read size %d at %#x (device %d, %s) = %#x, model %#x' % (psize, paddr, pi, pc, pgot, want)})
                        stop = True
                        break
        if stop:
            break
        # device-level calls of recording devices: a store reaches the device as write calls only (and does reach it), a load as read calls only
        bad = None
        for j, x in enumerate(rams):
            if not hasattr(x, 'log') or path == 'insn' and False:
                continue
            calls = x.log[:prim[id(x)]] if prim else x.log           # (without the harness's own re-read through the same descriptor)
            kinds = set(e[2] for e in calls)
            if op['op'] == 'w' and 0 in kinds:
                bad = (j, 'store_read_the_device')
            elif op['op'] == 'r' and 1 in kinds:
                bad = (j, 'load_wrote_the_device')
            elif op['op'] == 'w' and j in touched and not calls and all(t == j for t in touched) and \
                    (addr - model.devs[j][0]) + size <= len(model.devs[j][2]) and 'multi' not in op:
                bad = (j, 'store_never_reached_the_device')
            elif op['op'] == 'r' and j in touched and not calls and all(t == j for t in touched) and \
                    (addr - model.devs[j][0]) + size <= len(model.devs[j][2]) and 'multi' not in op:
                bad = (j, 'load_never_reached_the_device')          # (a device need not be a memory: its read() is the only way to its data)
        if bad:
            viol.append({'oracle': 'hub.model', 'site': path + ':' + op['op'], 'cls': bad[1], 'tick': idx,
                         'detail': 'device %d: %s size %d at %#x produced device calls %s' % (bad[0], op['op'], size, addr, rams[bad[0]].log[:4])})
            break
        i = touched[0] if len(set(touched)) == 1 else -1
        if not check_all(op, idx, i):
            break
    stats['prints'] = M.env.print_count[0] - p0
    dg = M.digest_of([bytes(x.memory_array[-4096:]) + bytes(x.memory_array[:4096]) for x in rams])
    return {'violations': viol, 'cover': cover, 'stats': stats, 'ticks': ticks, 'digest': dg, 'interesting': bool(viol)}


def sample(case, res):
    return {'scenario': 'hub', 'style': case['style'], 'devices': [[hex(d['begin']), hex(d['end'])] for d in case['devices']],
            'ops': [[o['op'], o['path'], hex(o['addr']), o['size'], hex(o['value'])] if 'addr' in o else [o['op'], {k: v for k, v in o.items() if k not in ('op', 'fill')}] for o in case['ops'][:12]], 'n_ops': len(case['ops']),
            'violations': res['violations'][:2]}


def shrink(case):
    ops = case['ops']
    n = len(ops)
    res = run(case)
    if res['violations']:
        t = res['violations'][0]['tick']
        if t + 1 < n:
            yield dict(case, ops=ops[:t + 1])
    size = max(1, n // 2)
    while size >= 1:
        for i in range(0, n, size):
            if len(ops[:i] + ops[i + size:]) > 0:
                yield dict(case, ops=ops[:i] + ops[i + size:])
        if size == 1:
            break
        size //= 2
    devs = case['devices']
    if len(devs) > 1:
        for i in range(len(devs)):
            yield dict(case, devices=devs[:i] + devs[i + 1:])
