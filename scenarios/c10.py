"""C10 — register file integrity and banking.

Scenario 'bank_walk': a seeded history of 60-400 operations on one core, mixing the Registers API (get/set,
get_rmode/set_rmode, get_spsr/set_spsr), executed instructions (MOV, MRS/MSR SPSR, CPS, MSR CPSR_c, STM/LDM user
registers, SRS with write-back to another mode's SP, exception returns) and exception entries of every kind (API,
instruction, interrupt lines).  Operations are abstract and resolved against the state they meet (ISA, mode).
Oracle: models/banking — after every operation the complete register file, read through get_rmode() for every
(register, mode) pair and raw, must equal the model: only what the operation names changed, every sharing rule holds.

Scenario 'range-stream' / 'range-entry': the M-range monitor (32-bit range of every register/PSR, PC alignment, 34
registers) rides on corrupted instruction streams (C18's generator, biased to the ends of the address space) and on
the C11 entry grid sample."""
import random

from sim import gen as G, machine as M
from sim.asm import A, T
from sim.entrymon import EntryMonitor
from sim.models import banking as BK
from sim.monitors import RangeMonitor
from sim.stream import StreamBoard
from scenarios import c18

PROPERTY = 'C10'
LEVEL = 'exploration'
BUDGET_S = {'quick': 120, 'thorough': 1800}
RULE = ("bank_walk histories: seeded sequences of abstract operations (API writes/reads by current and explicit mode, SPSR accesses, MOV/MRS/MSR/"
        "CPS/STM^/LDM^/SRS/return instructions, exception entries) resolved at run time, compared after every operation with a banked-register "
        "model over all (register, mode) pairs; range-stream/range-entry runs: 32-bit range + PC alignment monitor after every tick of corrupted "
        "streams incl. programs at 0x0 and 0xFFFFFFF0 (there with a vocabulary of PC-relative instructions whose results pass 2^32). distinct_nontrivial = distinct (operation kind, current mode, target mode/bank) triples "
        "exercised in histories that visited >= 3 modes, plus distinct (opcode class, mode) pairs under the range monitor.")
ASSUMPTIONS = [
    "modes are restricted to those legal for the configuration; Monitor-bank accesses only in Secure state (otherwise UNPREDICTABLE)",
    "the model adopts the real CPSR after each instruction (which mode an instruction selects is C12's subject); it predicts every general-purpose register, SPSR and ELR_hyp",
    "LDM/STM (user registers) and SRS operands are aimed at mapped RAM; base-in-list forms are not generated",
]

TOP = 0xFFFFF000
OPS = ['set', 'set', 'get', 'set_rmode', 'set_rmode', 'get_rmode', 'set_spsr', 'get_spsr', 'mov_imm', 'mov_reg', 'mov_reg', 'msr_spsr', 'mrs_spsr',
       'cps', 'cps', 'cps', 'msr_cpsr_c', 'entry_api', 'entry_api', 'svc', 'udf', 'irq', 'fiq', 'ret', 'ret', 'stm_user', 'ldm_user', 'srs', 'smc',
       'sec_state', 'sec_state', 'bystander', 'bystander']


def plan(tier, seed):
    # range-sweep: C18's systematic sweeps of the 32-bit Thumb and ARM encoding spaces (register fields biased to SP/LR/PC, operands at the
    # edges of the 32-bit range) under the range monitor
    sweeps = lambda rt, ra: ([{'k': 'range-sweep', 'sub': 'sweepT32', 'slice': i, 'rep': rt} for i in range(0, 384, 8)] +
                             [{'k': 'range-sweep', 'sub': 'sweepA32', 'slice': i, 'rep': ra} for i in range(0, 8192, 64)])
    if tier == 'quick':
        return [{'k': 'bank'}] * 5000 + [{'k': 'range-stream'}] * 6000 + sweeps(96, 6)
    return [{'k': 'bank'}] * 200000 + [{'k': 'range-stream'}] * 250000 + sweeps(512, 64) * 4


def gen_bank(rng):
    sec = rng.random() < 0.7
    virt = sec and rng.random() < 0.4
    cfg = {'arch_version': 7, 'have_security_ext': sec, 'have_virt_ext': virt, 'have_lpae': False,
           'memory_system_architecture': 'VMSA' if virt else 'PMSA', 'number_of_mpu_regions': 12}
    thumb = rng.getrandbits(1)
    modes = G.legal_modes(cfg)
    mode = rng.choice(modes)
    ns = rng.getrandbits(1) if sec else 0
    if mode == 'hyp':
        ns = 1
    devices = G.std_devices()
    G.set_data(devices[2], 0x400, bytes(rng.getrandbits(8) for _ in range(0x100)))
    cpsr = G.random_cpsr(rng, cfg, mode=mode, thumb=thumb) & ~0x1C0       # A/I/F clear: interrupts deliverable
    sys = {'sctlr': G.sctlr_value(m=0, a=0, u=1, te=thumb, v=0), 'scr': ns if sec else 0, 'vbar': G.LOW, 'mvbar': G.LOW + 0x400, 'hvbar': G.LOW + 0x800,
           'hsctlr': thumb << 30}
    R = {n: rng.getrandbits(32) for n in M.RNAMES if n != 'PC'}
    for m in ('usr', 'fiq', 'irq', 'svc', 'abt', 'und', 'mon', 'hyp'):
        R['SP' + m] = G.STACKS + 0x100 + 0x100 * ['usr', 'fiq', 'irq', 'svc', 'abt', 'und', 'mon', 'hyp'].index(m)
    regs = {'cpsr': cpsr, 'pc': G.CODE, 'sys': sys, 'R': R, 'spsr': G.random_spsrs(rng, cfg), 'elr_hyp': rng.getrandbits(32) & ~3}
    for k in regs['spsr']:
        regs['spsr'][k] = (regs['spsr'][k] & ~0x0600FE20) | thumb << 5     # IT clear, E clear (fetch honours E), same ISA
    n = rng.choice([60, 120, 250, 400])
    weights = [rng.random() for _ in OPS]
    ops = []
    for _ in range(n):
        k = rng.choices(OPS, weights)[0]
        op = {'op': k, 'n': rng.randrange(15), 'm': rng.randrange(15), 'mode': rng.choice(modes), 'v': rng.getrandbits(32),
              'imm': rng.getrandbits(8), 'kind': rng.choice(['svc', 'und', 'dabt', 'irq', 'fiq', 'smc', 'hyptrap']), 'list': rng.getrandbits(15) | 1 << rng.randrange(15),
              'how': rng.choice(['subs', 'movs', 'eret', 'ldm']), 'ns': rng.getrandbits(1)}
        ops.append(op)
    if not virt and rng.random() < 0.5:
        # an instruction FETCH that aborts (MPU switched on for one step with no region and no background region), placed directly behind operations
        # that wrote banked registers or changed mode: the abort entry writes LR_abt and SPSR_abt - and nothing an earlier instruction left behind
        for i in range(len(ops) - 1, -1, -1):
            if ops[i]['op'] in ('ret', 'ldm_user', 'srs', 'mov_reg', 'cps', 'msr_cpsr_c', 'set_rmode') and rng.random() < 0.3:
                ops.insert(i + 1, dict(ops[i], op='fetch_abort'))
    core = {'config': cfg, 'devices': devices, 'regs': regs, 'words': [], 'force': None, 'no_poke': []}
    case = {'scenario': 'bank_walk', 'cores': [core], 'ops': ops, 'thumb': thumb, 'events': [], 'max_ticks': 10 ** 9, 'stop_at_done': False}
    # a BYSTANDER instance: a second processor with the same configuration file, alive next to the one under test (built before it, or in the middle
    # of the history), whose banks are written through its own API between the operations of the history.  A register file belongs to one processor
    case['bystander'] = rng.choice([None, None, 'before', 'later'])
    if rng.random() < 0.35:
        # a PREDECESSOR instance: another processor, built from another configuration (other extensions), is created, has every bank of every mode
        # number read and the legal ones written through the API, and is dropped before the instance under test is even constructed.  Which
        # register a (number, mode) pair names depends on the configuration, so nothing about it may outlive the instance that asked
        psec = rng.random() < 0.6
        pvirt = psec and rng.random() < 0.5
        if (psec, pvirt) == (sec, virt):
            psec, pvirt = (not sec, False) if rng.random() < 0.5 else (True, not virt)
        case['predecessor'] = {'config': dict(cfg, have_security_ext=psec, have_virt_ext=pvirt, memory_system_architecture='VMSA' if pvirt else 'PMSA'),
                               'seed': rng.getrandbits(32)}
    return case


def gen(item, rng, tier):
    if item['k'] == 'bank':
        return gen_bank(rng)
    if item['k'] == 'range-sweep':
        case = c18.gen_case({'k': item['sub'], 'slice': item['slice'], 'rep': item['rep']}, rng, tier)
        case['scenario'] = 'range-stream'
        case['cores'][0]['force']['edge_regs'] = rng.randrange(1, 8)
        return case
    case = c18.gen_case({'k': 'stream'}, rng, tier)
    case['scenario'] = 'range-stream'
    core = case['cores'][0]
    core['devices'].append({'kind': 'ram', 'begin': TOP, 'end': 0x100000000})
    if rng.random() < 0.5:
        # run at the very ends of the address space, with stack/base registers that make address arithmetic wrap
        core['regs']['pc'] = rng.choice([0, 4, 8, 0xFFFFFFF0, 0xFFFFFFF8, 0xFFFFFFFC, TOP + 0xFE0])
        for nme in rng.sample(M.RNAMES[:-1], 10):
            core['regs']['R'][nme] = rng.choice([0, 4, 8, 1, 0xFFFFFFF8, 0xFFFFFFFC, 0xFFFFFFFF, 0xFFFFFFF0, 0x80000000, 0x7FFFFFFF])
        if rng.random() < 0.6:
            # PC-relative instructions whose result passes 2^32 when executed near the top of the address space: table branches,
            # forward branches, literal loads, ADR, ADD pc
            rn_, rm_ = rng.sample(range(8), 2)
            core['regs']['R']['R%dusr' % rn_] = G.DATA + 0x3C0 + rng.randrange(0, 0x40)      # a table of seeded bytes
            core['regs']['R']['R%dusr' % rm_] = rng.randrange(0, 0x20)
            core['regs']['pc'] = rng.choice([0xFFFFFFF0, 0xFFFFFFF8, 0xFFFFFFE0, 0xFFFFFFFC, TOP + 0xFC0])
            thumb = (core['regs']['cpsr'] >> 5) & 1
            for i in range(len(core['words'])):
                if rng.random() < 0.35:
                    core['words'][i] = _wrap_word(rng, thumb, rn_, rm_)
    elif rng.random() < 0.4:
        # three-input adders at their exact boundaries: every register holds one of two values a, b (reloaded before every tick, alternating by
        # register number and position) with a + b one of 2^32 - 1, 2^32, 2^32 - 2 or a one of b, b + 1, b - 1, and half of the words are
        # ADC / SBC / RSC / ADD / SUB / RSB between them - into ordinary registers, the SP and the PC (with S: the exception-return forms).
        # The carry flag comes from the stream.  A result that is reduced modulo 2^32 BEFORE the carry goes in ends up at 2^32 or -1
        a = rng.choice([0, 1, 0xFFFFFFFF, 0x7FFFFFFF, 0x80000000, 0xFFFFFF00, 0x100, rng.getrandbits(32)])
        b = rng.choice([0xFFFFFFFF - a, (0x100000000 - a) & 0xFFFFFFFF, (0xFFFFFFFE - a) & 0xFFFFFFFF, a, (a + 1) & 0xFFFFFFFF, (a - 1) & 0xFFFFFFFF])
        thumb = (core['regs']['cpsr'] >> 5) & 1
        core['force'] = {'thumb': thumb, 'it': 0, 'ptr_regs': [a, b]}
        for i in range(len(core['words'])):
            if rng.random() < 0.5:
                core['words'][i] = _carry_word(rng, thumb)
    return case


def _carry_word(rng, thumb):
    rn, rm = rng.randrange(13), rng.randrange(13)
    if rng.random() < 0.7 and (rn ^ rm) & 1 == 0:
        rm ^= 1                                   # other parity: the two registers hold the two different values
    if thumb:
        k = rng.random()
        if k < 0.2:
            return G._t16(rng.choice([0x4140, 0x4180]) | (rm & 7) << 3 | (rn & 7))                    # ADCS / SBCS Rdn, Rm
        op = rng.choice([0b1000, 0b1010, 0b1011, 0b1101, 0b1110])                                      # ADD ADC SBC SUB RSB (.W, register)
        if k < 0.35:
            return 0xF0000000 | op << 21 | rng.getrandbits(1) << 20 | rn << 16 | rng.randrange(13) << 8 | rng.choice([0, 1, 0xFF])   # modified immediate
        return 0xEA000000 | op << 21 | rng.getrandbits(1) << 20 | rn << 16 | rng.randrange(13) << 8 | min(rm, 12)
    op = rng.choice(['adc', 'sbc', 'rsc', 'adc', 'sbc', 'rsc', 'add', 'sub', 'rsb'])
    rd = rng.choice([15, 15, 15, 13] + list(range(13)))
    sbit = 1 if rd == 15 and rng.random() < 0.8 else rng.getrandbits(1)
    if rng.random() < 0.3:
        return A.dp_imm(op, rd, rn, rng.choice([0, 1, 0xFF]), s=sbit, rot=rng.choice([0, 0, 4, 12]))
    return A.dp_reg(op, rd, rn, rm, s=sbit)


def _wrap_word(rng, thumb, rn, rm):
    sm = rng.randrange(1, 0x40)
    if thumb:
        return G._t16(rng.choice([
            0xE8D0F000 | rn << 16 | rm, 0xE8D0F010 | rn << 16 | rm, 0xE8D0F000 | rn << 16 | rm,        # TBB / TBH [rn, rm]
            0xE000 | sm, 0xF000B800 | sm, 0xF000F800 | sm, 0xF000E800 | (sm & ~1),                       # B, B.W, BL, BLX forward
            0xB100 | (sm & 0x1F) << 3 | rm, 0xB900 | (sm & 0x1F) << 3 | rn,                              # CBZ / CBNZ
            0xF20F0000 | rng.randrange(8) << 8 | sm, 0xA000 | rng.randrange(8) << 8 | sm,                # ADR
            0xF8DF0000 | rng.randrange(8) << 12 | sm << 2, 0x4800 | rng.randrange(8) << 8 | sm,         # LDR literal
            0x4487 | rm << 3, 0xD000 | rng.randrange(14) << 8 | sm]))                                    # ADD pc, rm ; B<cond>
    return rng.choice([0xEA000000 | sm, 0xEB000000 | sm, 0xFA000000 | sm, 0xE08FF000 | rm, 0xE59FF000 | sm << 2, 0xE28F0000 | rng.randrange(8) << 12 | sm,
                       0xE79FF100 | rm, 0x0A000000 | rng.randrange(15) << 28 | sm])


# ------------------------------------------------------------------ bank_walk execution

VALID_PSR_MASK = 0xF80F01C0


run_predecessor = M.run_predecessor


class Walk:
    def __init__(self, case):
        self.case = dict(case, cores=[dict(case['cores'][0], words=[])])           # (a 'predecessor' of the case is run by the board before it builds the instance)
        self.by = None
        if case.get('bystander') == 'before':
            self.by = M.new_arm({'config': case['cores'][0].get('config'), 'devices': [], 'reset': True})
        self.b = StreamBoard(self.case, [])
        self.arm = self.b.cores[0].arm
        self.r = self.arm.registers
        self.cfg = M.full_config(case['cores'][0]['config'])
        self.sec, self.virt = self.cfg['have_security_ext'], self.cfg['have_virt_ext']
        self.legal = BK.legal_modes(self.sec, self.virt)
        self.mon = EntryMonitor(self.b, 0, report=True, oracle='bank.entry')
        self.mon.listeners.append(self.on_entry)
        self.b.observers = [self.mon, RangeMonitor(report=True, prop_oracle='range')]
        st = M.dump_state(self.arm)
        self.model = BK.Banks(st['R'], st['spsr'], st['elr_hyp'])
        self.thumb = case['thumb']
        self.words = self.case['cores'][0]['words']
        self.visited = set()
        self.kinds = set()
        self.rng = random.Random(len(case['ops']))

    # -- helpers
    def mode(self):
        return self.r.cpsr.value & 0x1F

    def secure(self):
        return (not self.sec) or not (self.r.scr.value & 1) or self.mode() == BK.MON

    def data_base(self):
        """a block of the data page the next instruction word will not be placed in (the PC of a history may point anywhere, also into the data page)"""
        pc = self.r.pc_store_value()
        return G.DATA + 0x400 if not (G.DATA + 0x300 <= pc < G.DATA + 0x500) else G.DATA + 0xC00

    def on_entry(self, kind, exp, s):
        m = self.model
        if exp['lr'] is not None:
            m.R[{0x11: 'LRfiq', 0x12: 'LRirq', 0x13: 'LRsvc', 0x16: 'LRmon', 0x17: 'LRabt', 0x1b: 'LRund'}[exp['mode']]] = exp['lr']
        if exp['elr'] is not None:
            m.elr_hyp = exp['elr']
        if exp['spsr'] is not None:
            m.spsr[BK.SPSR_OF[exp['mode']]] = exp['spsr']

    def exec_word(self, w):
        if self.thumb and w <= 0xFFFF:
            w = w << 16 | T.NOP
        self.words.append(w)
        self.b.advance()
        return not self.b.cores[0].dead

    def violate(self, opname, cls, detail):
        self.b.violate('bank.model', opname, cls, detail)

    def compare(self, op, skip=()):
        """complete register file vs model, through get_rmode for all (n, mode) and raw"""
        r, m = self.r, self.model
        raw = M.regs_dict(self.arm)
        for name, v in m.R.items():
            if name == 'PC' or name in skip:
                continue
            if raw.get(name) != v:
                self.violate(op['op'], 'bank_changed' if name not in self.named else 'wrong_value',
                             '%s = %#x, model %#x after %s (mode %#x)' % (name, raw.get(name, -1), v, op['op'], self.mode()))
                return False
        for mode in self.legal:
            if mode == BK.MON and not self.secure():
                continue
            for n in range(15):
                name = BK.phys(n, mode)
                if name in skip:
                    continue
                got = r.get_rmode(n, mode)
                if got != m.R[name]:
                    self.violate(op['op'], 'accessor_mismatch', 'get_rmode(%d, %#x) = %#x, model %s = %#x' % (n, mode, got, name, m.R[name]))
                    return False
        st = M.dump_state(self.arm)
        for k, v in m.spsr.items():
            if st['spsr'][k] != v and ('spsr_' + k) not in skip:
                self.violate(op['op'], 'spsr_changed', 'spsr_%s = %#x, model %#x after %s' % (k, st['spsr'][k], v, op['op']))
                return False
        if st['elr_hyp'] != m.elr_hyp:
            self.violate(op['op'], 'elr_changed', 'elr_hyp = %#x, model %#x' % (st['elr_hyp'], m.elr_hyp))
            return False
        return True

    def valid_psr(self, v, mode=None):
        v = (v & VALID_PSR_MASK) | (mode if mode is not None else self.rng.choice(self.legal)) | self.thumb << 5
        return v

    # -- one abstract operation
    def apply(self, op):
        r, m = self.r, self.model
        cur = self.mode()
        k = op['op']
        self.named = set()
        priv = cur != BK.USR
        n, mm = op['n'], op['m']
        tgt = BK.MODES_BY_NAME[op['mode']] if hasattr(BK, 'MODES_BY_NAME') else M.MODES[op['mode']]
        if tgt == BK.MON and not self.secure():
            tgt = BK.SVC
        bank_key = '%s|%x|%x' % (k, cur, tgt if k in ('set_rmode', 'get_rmode', 'cps', 'srs', 'entry_api') else cur)
        ok = True
        if self.sec and not self.secure() and (r.nsacr.value >> 19) & 1:
            # NSACR.RFR=1 makes the FIQ bank UNPREDICTABLE territory in Non-secure state: the (Secure) firmware of these histories only keeps it set
            # while it runs in Secure state, where banking is unaffected by it
            r.nsacr.value &= ~(1 << 19)
        if k == 'fetch_abort':
            if self.cfg.get('memory_system_architecture') != 'PMSA' or any(x.value & 1 for x in r.drsrs):
                return 'skip'
            sct = r.sctlr.value
            r.sctlr.m, r.sctlr.br = 1, 0
            self.b.count('fault.fetch-abort')
            ok = self.exec_word(T.NOP if self.thumb else A.NOP)
            r.sctlr.value = (r.sctlr.value & ~(1 | 1 << 17)) | (sct & (1 | 1 << 17))
            self.thumb = (r.cpsr.value >> 5) & 1
            if not ok:
                return 'dead'
        elif k == 'bystander':
            if not self.case.get('bystander'):
                return 'skip'
            if self.by is None:
                self.by = M.new_arm({'config': self.case['cores'][0].get('config'), 'devices': [], 'reset': True})
                self.b.count('fault.instance-create')
            br = self.by.registers
            bm = tgt if tgt in self.legal and not (tgt == BK.HYP and not self.virt) else BK.SVC
            br.cpsr.value = (br.cpsr.value & ~0x1F) | bm
            if bm == BK.HYP:
                br.scr.value |= 1
            br.set(n, op['v'])
            br.set_rmode(mm, BK.SVC if bm in (BK.MON, BK.HYP) else bm, op['v'] ^ 0xFFFFFFFF)
            if bm not in (BK.USR, BK.SYS):
                br.set_spsr(op['v'] ^ 0x5A5A5A5A)
            self.b.count('fault.bystander-write')
        elif k == 'sec_state':
            # Monitor mode (always Secure) rewrites SCR.NS and NSACR.RFR: no effect on which physical register a (register, mode) pair names
            if not self.sec or cur != BK.MON:
                return 'skip'
            r.scr.value = (r.scr.value & ~1) | op['ns']
            r.nsacr.value = (r.nsacr.value & ~(1 << 19)) | (op['imm'] & 1) << 19
        elif k == 'set':
            r.set(n, op['v'])
            m.set(n, cur, op['v'])
            self.named.add(BK.phys(n, cur))
        elif k == 'get':
            got = r.get(n)
            if got != m.get(n, cur):
                self.violate('get', 'accessor_mismatch', 'get(%d) in mode %#x = %#x, model %#x' % (n, cur, got, m.get(n, cur)))
        elif k == 'set_rmode':
            r.set_rmode(n, tgt, op['v'])
            m.set(n, tgt, op['v'])
            self.named.add(BK.phys(n, tgt))
        elif k == 'get_rmode':
            got = r.get_rmode(n, tgt)
            if got != m.get(n, tgt):
                self.violate('get_rmode', 'accessor_mismatch', 'get_rmode(%d, %#x) = %#x, model %#x' % (n, tgt, got, m.get(n, tgt)))
        elif k == 'set_spsr':
            if cur not in BK.SPSR_OF:
                return 'skip'
            v = self.valid_psr(op['v'])
            r.set_spsr(v)
            m.spsr[BK.SPSR_OF[cur]] = v
        elif k == 'get_spsr':
            if cur not in BK.SPSR_OF:
                return 'skip'
            if r.get_spsr() != m.spsr[BK.SPSR_OF[cur]]:
                self.violate('get_spsr', 'accessor_mismatch', 'get_spsr() in %#x = %#x, model %#x' % (cur, r.get_spsr(), m.spsr[BK.SPSR_OF[cur]]))
        elif k == 'mov_imm':
            rd = n % 8 if self.thumb else (n if n < 15 else 0)
            ok = self.exec_word(T.mov_imm(rd, op['imm']) if self.thumb else A.mov_imm(rd, op['imm']))
            m.set(rd, cur, op['imm'])
            self.named.add(BK.phys(rd, cur))
        elif k == 'mov_reg':
            rd, rm = n, mm
            if self.thumb and (rd == 13 or rm == 13):
                rd, rm = rd % 13, rm % 13
            ok = self.exec_word(T.mov_reg(rd, rm) if self.thumb else A.mov_reg(rd, rm))
            m.set(rd, cur, m.get(rm, cur))
            self.named.add(BK.phys(rd, cur))
        elif k == 'msr_spsr':
            if cur not in BK.SPSR_OF:
                return 'skip'
            rn = n % 13
            v = self.valid_psr(op['v'])
            r.set(rn, v)
            m.set(rn, cur, v)
            ok = self.exec_word(T.msr(rn, 0xF, 1) if self.thumb else A.msr_reg(rn, 0xF, 1))
            # bits 23:20 are reserved and keep their value; bits 26:24 are zero on both sides in these histories
            m.spsr[BK.SPSR_OF[cur]] = (m.spsr[BK.SPSR_OF[cur]] & 0x00F00000) | (v & ~0x00F00000)
        elif k == 'mrs_spsr':
            if cur not in BK.SPSR_OF:
                return 'skip'
            rd = n % 13
            ok = self.exec_word(T.mrs(rd, 1) if self.thumb else A.mrs(rd, 1))
            m.set(rd, cur, m.spsr[BK.SPSR_OF[cur]])
            self.named.add(BK.phys(rd, cur))
        elif k == 'cps':
            if cur == BK.HYP or tgt == BK.HYP or (tgt == BK.MON and not self.secure()) or (tgt == BK.FIQ and not self.secure() and (r.nsacr.value >> 19) & 1):
                return 'skip'         # UNPREDICTABLE mode changes
            ok = self.exec_word(T.cps_w(0, 0, tgt) if self.thumb else A.cps(0, 0, tgt))
            if ok and priv and self.mode() != tgt:
                self.violate('cps', 'mode_not_changed', 'CPS #%#x from privileged mode %#x left mode %#x' % (tgt, cur, self.mode()))
        elif k == 'msr_cpsr_c':
            if cur == BK.HYP or tgt == BK.HYP or (tgt == BK.MON and not self.secure()):
                return 'skip'
            rn = n % 13
            v = (r.cpsr.value & ~0x1F) | tgt
            r.set(rn, v)
            m.set(rn, cur, v)
            ok = self.exec_word(T.msr(rn, 1, 0) if self.thumb else A.msr_reg(rn, 1, 0))
        elif k == 'entry_api':
            kind = op['kind']
            if kind == 'smc' and (not self.sec):
                kind = 'svc'
            if kind == 'hyptrap' and not (self.virt and not self.secure()):
                kind = 'und'
            if kind in ('irq', 'fiq', 'dabt') and cur == BK.HYP:
                pass
            from armulator.armv6.arm_exceptions import DataAbortException
            from armulator.armv6.enums import DAbort
            try:
                if kind == 'dabt':
                    r.take_data_abort_exception(DataAbortException(DAbort.PERMISSION, False))
                else:
                    {'svc': r.take_svc_exception, 'und': r.take_undef_instr_exception, 'smc': r.take_smc_exception, 'hyptrap': r.take_hyp_trap_exception,
                     'irq': r.take_physical_irq_exception, 'fiq': r.take_physical_fiq_exception}[kind]()
            except NotImplementedError:
                pass
            bank_key = 'entry_api:%s|%x|%x' % (kind, cur, self.mode())
        elif k in ('svc', 'udf', 'smc'):
            if k == 'smc' and (not self.sec or not priv):
                k = 'udf'
            w = {'svc': (T.svc(op['imm']), A.svc(op['imm'])), 'udf': (T.udf(op['imm']), A.udf(op['imm'])), 'smc': (T.smc(1), A.smc(1))}[k][0 if self.thumb else 1]
            ok = self.exec_word(w)
            bank_key = '%s|%x|%x' % (k, cur, self.mode())
        elif k in ('irq', 'fiq'):
            if (r.cpsr.value >> (7 if k == 'irq' else 6)) & 1:
                return 'skip'
            self.b.cores[0].lines[k] = True
            self.b.count('fault.%s-asserted' % k)
            ok = self.exec_word(T.NOP if self.thumb else A.NOP)
            self.b.cores[0].lines[k] = False
            bank_key = '%s|%x|%x' % (k, cur, self.mode())
        elif k == 'ret':
            if cur not in BK.SPSR_OF:
                return 'skip'
            how = op['how']
            # make the saved state a valid one for this history (legal mode, same instruction set, IT clear)
            sp = m.spsr[BK.SPSR_OF[cur]]
            tm = sp & 0x1F
            if tm not in self.legal or tm == BK.HYP or (tm == BK.MON and not self.secure()) or (sp >> 24) & 1 or ((sp >> 5) & 1) != self.thumb or sp & 0x0600FE00:
                sp = self.valid_psr(sp, self.rng.choice([x for x in self.legal if x not in (BK.HYP, BK.MON)]))
                r.set_spsr(sp)
                m.spsr[BK.SPSR_OF[cur]] = sp
            if cur == BK.HYP:
                if self.thumb:
                    w = T.ERET
                else:
                    return 'skip'          # ERET A1 is not implemented in armulator
            elif how == 'ldm' and not self.thumb:
                # LDM rn, {list, pc}^ (exception return): the listed registers are those of the CURRENT mode, the PC word follows them
                rn = n % 8
                lst = (op['list'] & 0x7FFF & ~(1 << rn)) or (2 if rn != 1 else 4)
                base = self.data_base()
                r.set(rn, base)
                m.set(rn, cur, base)
                self.named.add(BK.phys(rn, cur))
                a = base
                for i in range(15):
                    if lst >> i & 1:
                        m.set(i, cur, int.from_bytes(M.peek(self.arm, a, 4), 'little'))
                        self.named.add(BK.phys(i, cur))
                        a += 4
                M.poke(self.arm, a, (G.CODE + 0x100).to_bytes(4, 'little'))
                w = A.ldstm(1, rn, lst | 0x8000, p=0, u=1, w=0, s=1)
            elif how == 'movs' and not self.thumb:
                w = A.movs_pc_lr()
            else:
                w = T.subs_pc_lr(0 if how == 'eret' else 4) if self.thumb else A.subs_pc_lr(4)
            ok = self.exec_word(w)
            bank_key = 'ret:%s|%x|%x' % (how, cur, self.mode())
        elif k == 'stm_user':
            if cur in (BK.USR, BK.SYS, BK.HYP):
                return 'skip'
            # every base register - the banked SP / LR of the current mode, R8-R12, R0-R7 - in or out of its own list (no write-back exists for this
            # form, so a listed base is stored like any other register: its USER-bank value), all four addressing modes
            rn = [13, 14, 8 + n % 5, n % 8, 13, 14][op['m'] % 6]
            lst = op['list'] & 0x7FFF or 1
            if op['imm'] & 1:
                lst &= ~(1 << rn)
            lst = lst or 2
            p_, u_ = (op['imm'] >> 1) & 1, (op['imm'] >> 2) & 1
            cnt = bin(lst).count('1')
            pc_ = r.pc_store_value()
            base = G.DATA + 0x800 if not (G.DATA + 0x700 <= pc_ < G.DATA + 0x900) else G.DATA + 0xE00
            r.set(rn, base)
            m.set(rn, cur, base)
            if self.thumb:
                return 'skip'
            ok = self.exec_word(A.ldstm(0, rn, lst, p=p_, u=u_, w=0, s=1))
            if ok:
                a = (base + 4 * p_) if u_ else (base - 4 * cnt + 4 * (1 - p_))
                for i in range(15):
                    if lst >> i & 1:
                        got = int.from_bytes(M.peek(self.arm, a, 4), 'little')
                        if got != m.get(i, BK.USR):
                            self.violate('stm_user', 'wrong_bank_stored', 'STM^ stored %#x for R%d, user-bank value is %#x (mode %#x)' % (got, i, m.get(i, BK.USR), cur))
                            break
                        a += 4
        elif k == 'ldm_user':
            if cur in (BK.USR, BK.SYS, BK.HYP) or self.thumb:
                return 'skip'
            rn = [13, 14, 8 + n % 5, n % 8, 13, 14][op['m'] % 6]
            lst = op['list'] & 0x7FFF or 1
            if op['imm'] & 1:
                lst &= ~(1 << rn)               # (a listed base is loaded like any other register: into the USER bank)
            lst = lst or 2
            p_, u_ = (op['imm'] >> 1) & 1, (op['imm'] >> 2) & 1
            cnt = bin(lst).count('1')
            base = self.data_base() + 0x40
            r.set(rn, base)
            m.set(rn, cur, base)
            ok = self.exec_word(A.ldstm(1, rn, lst, p=p_, u=u_, w=0, s=1))
            a = (base + 4 * p_) if u_ else (base - 4 * cnt + 4 * (1 - p_))
            for i in range(15):
                if lst >> i & 1:
                    m.set(i, BK.USR, int.from_bytes(M.peek(self.arm, a, 4), 'little'))
                    self.named.add(BK.phys(i, BK.USR))
                    a += 4
        elif k == 'srs':
            if cur not in BK.SPSR_OF or cur == BK.HYP or tgt == BK.HYP or (tgt == BK.MON and not self.secure()) or \
                    (tgt == BK.FIQ and not self.secure() and (r.nsacr.value >> 19) & 1):
                return 'skip'
            sp0 = m.get(13, tgt)
            if not (G.STACKS + 16 <= sp0 <= G.STACKS + G.STACKS_SZ - 16) or sp0 & 3:
                sp0 = G.STACKS + 0x800
                r.set_rmode(13, tgt, sp0)
                m.set(13, tgt, sp0)
            ok = self.exec_word(T.srs(tgt, db=1, w=1) if self.thumb else A.srs(tgt, p=1, u=0, w=1))
            m.set(13, tgt, (sp0 - 8) & 0xFFFFFFFF)
            self.named.add(BK.phys(13, tgt))
            if ok:
                lr = int.from_bytes(M.peek(self.arm, sp0 - 8, 4), 'little')
                ps = int.from_bytes(M.peek(self.arm, sp0 - 4, 4), 'little')
                if lr != m.get(14, cur) or ps != m.spsr[BK.SPSR_OF[cur]]:
                    self.violate('srs', 'wrong_bank_stored', 'SRS from mode %#x stored (%#x, %#x), model LR/SPSR (%#x, %#x)' % (cur, lr, ps, m.get(14, cur), m.spsr[BK.SPSR_OF[cur]]))
        else:
            return 'skip'
        if not ok:
            return 'dead'
        self.kinds.add(bank_key)
        self.visited.add(self.mode())
        return 'ok'


def run_bank(case):
    w = Walk(case)
    b = w.b
    nops = 0
    for op in case['ops']:
        if b.violations or b.cores[0].dead:
            break
        res = w.apply(op)
        if res == 'skip':
            b.count('probe.op-skipped')
            continue
        nops += 1
        b.count('probe.op-%s' % op['op'])
        if res == 'dead':
            break
        if b.violations:
            break
        if not w.compare(op):
            break
    if b.cores[0].dead:
        b.count('probe.run-ended-by-host-error')
    if len(w.visited) >= 3:
        b.cover.update('bank|' + k for k in w.kinds)
    else:
        b.cover.update('~bank|' + k for k in w.kinds)
    return b, nops


class RangeCover:
    def on_tick(self, b, rec):
        if rec['what'] == 'step' and not rec['exc'] and not rec['nie']:
            arm = b.cores[rec['core']].arm
            b.cover.add('range|%s|%x' % (type(arm.executed_opcode).__name__, rec['pre'][1] & 0x1F))


def run(case):
    p0 = M.env.print_count[0]
    if case['scenario'] == 'bank_walk':
        b, nops = run_bank(case)
        ticks = b.tick + nops
    else:
        b = StreamBoard(case, [RangeMonitor(report=True), RangeCover()])
        b.run()
        ticks = b.tick
    b.count('prints', M.env.print_count[0] - p0)
    return {'violations': b.violations, 'cover': b.cover, 'stats': b.stats, 'ticks': ticks, 'digest': b.digest() + M.digest_of(M.light(b.cores[0].arm)),
            'interesting': bool(b.violations)}


def sample(case, res):
    c = case['cores'][0]
    if case['scenario'] == 'bank_walk':
        return {'scenario': 'bank_walk', 'config': c['config'], 'thumb': case['thumb'], 'start_cpsr': hex(c['regs']['cpsr']),
                'ops': [{k: v for k, v in o.items() if k in ('op', 'n', 'mode', 'kind', 'how')} for o in case['ops'][:16]], 'n_ops': len(case['ops']),
                'violations': res['violations'][:2]}
    return {'scenario': case['scenario'], 'config': c['config'], 'start_pc': hex(c['regs'].get('pc', 0)), 'words': ['%08x' % w for w in c['words'][:10]],
            'ticks': res['ticks'], 'violations': res['violations'][:2]}


def shrink(case):
    if case['scenario'] != 'bank_walk':
        for c in c18.shrink(dict(case, scenario='corrupt')):
            yield dict(c, scenario=case['scenario'])
        return
    ops = case['ops']
    n = len(ops)
    # truncate after the failing op
    res = run(case)
    for cut in (n // 2, n - n // 4, n - 1):
        if 0 < cut < n:
            yield dict(case, ops=ops[:cut])
    # ddmin-style chunk removal
    size = max(1, n // 2)
    while size >= 1:
        for i in range(0, n, size):
            yield dict(case, ops=ops[:i] + ops[i + size:])
        if size == 1:
            break
        size //= 2
