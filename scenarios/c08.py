"""C08 — IT blocks.  Scenario 'it_block' (program mode): a Thumb main program  IT<mask> firstcond ; 1-4 body slots ;
unconditional marker ; b .  runs with real vectors and handlers.

Grid: every legal (firstcond, mask) pair (214) x all 16 NZCV values x exception kind in {none, IRQ, FIQ, SVC in a slot,
UDF in a passing slot (handler has the word patched to NOP and retries), Data Abort in a slot (handler has the access
granted and retries)}; injection position, handler ISA, return sequence and body contents are seeded per cell (the
thorough tier also enumerates the position).

Oracles: (1) ITSTATE before/after every main instruction equals models/itstate; (2) a slot takes effect iff
ConditionPassed(slot condition, NZCV at that slot); (3) a 16-bit data-processing slot leaves NZCV unchanged inside the
block although the same instruction with the same operands changes NZCV outside a block (checked when the case is built);
(4) every exception entry inside the block clears CPSR.IT and saves the model's IT state in the SPSR (entry model), and the
return restores the interrupted CPSR exactly; (5) transparency against the ideal run (no interrupts, SVC/UDF replaced by
NOP, access granted from the start)."""
import random

from sim import gen as G, machine as M, prog as P
from sim.asm import A, T, emit, size_of
from sim.board import Board
from sim.entrymon import EntryMonitor
from sim.models import itstate as IT
from sim.monitors import RangeMonitor
from scenarios.c12 import ReturnChecker

PROPERTY = 'C08'
LEVEL = 'fault_enumeration'
BUDGET_S = {'quick': 150, 'thorough': 2400}
EXHAUSTIVE = {'quick': False, 'thorough': False}
RULE = ("failsweep: all 65 536 sixteen-bit Thumb words (both tiers; thorough: 6 seeded contexts) and a sweep of hw1[15:4] of the 32-bit Thumb space with seeded "
        "fields, each executed in an IT slot whose condition fails (seeded cond/NZCV/slot position/mode): nothing but PC and ITSTATE may change, or the word is "
        "rejected as undefined/unimplemented.  it_block: "
        "cells = 214 legal (firstcond, mask) x 16 NZCV x 6 exception kinds, all enumerated in both tiers; slot contents (marker MOV, the 23 sixteen-bit "
        "flag-setting data-processing encodings, MOV.W/ADD.W, seeded 32-bit data-processing / bit-field / saturating / parallel / multiply forms, MRS, MSR CPSR_x, "
        "CMP, LDR/STR (16-bit, .W with Rt=SP), LDM/STM.W, LDRD/STRD, NOP, SVC, UDF, and as last slot B/B.W/BL/BX/BLX/MOV pc/LDR pc), injection position, handler ISA and return "
        "sequence seeded per cell (thorough: position enumerated, 4 seeds per cell). distinct_nontrivial = distinct (firstcond, mask, NZCV, position, kind, "
        "handler ISA) cells in which at least one slot condition failed and one passed, or an exception was actually taken inside the block.")
ASSUMPTIONS = [
    "a failing-condition UDF is never asserted on (IMPLEMENTATION DEFINED whether it traps); UDF is only placed in slots whose condition passes",
    "result values of the body instructions are not checked (C01); only 'changed iff the condition passed' and the flags",
    "SVC with a failing IT condition must not be taken (ARM ARM: the SVC instruction is conditional like any other)",
]

KINDS = ['none', 'irq', 'fiq', 'svc', 'udf', 'dabt']
DENY = G.DATA + 0x800             # 32-byte no-access region used by the 'dabt' kind (pointer in r7)


def cells():
    out = []
    for f, m in IT.legal_pairs():
        for nzcv in range(16):
            for k in KINDS:
                out.append((f, m, nzcv, k))
    return out


_CELLS = None


def plan(tier, seed):
    global _CELLS
    if _CELLS is None:
        _CELLS = cells()
    # failsweep: EVERY 16-bit Thumb word, and a sweep of the 32-bit Thumb space, executed in an IT slot whose condition fails: nothing may happen
    fs = lambda n16, rep32: ([{'k': 'failsweep16', 'slice': i, 'of': 64, 'ctx': c} for c in range(n16) for i in range(64)] +
                             [{'k': 'failsweep32', 'slice': i, 'rep': rep32} for i in range(0, 384, 8)] +
                             [{'k': 'failsweepC', 'slice': i, 'of': 8} for i in range(8)] +          # the example words of every Thumb opcode class (sim/classwords.json)
                             [{'k': 'trapsweep', 'rep': i} for i in range(max(8, n16 * 8))] +       # Hyp traps taken from inside IT blocks
                             [{'k': 'hostret', 'pair': i, 'rep': r_} for r_ in range(2 * n16) for i in range(len(IT.legal_pairs()))])   # SVC serviced by the host (API-level return)
    if tier == 'quick':
        return [{'c': i, 'rep': 0} for i in range(len(_CELLS))] + [{'c': i, 'rep': 1} for i in range(len(_CELLS))] + fs(1, 48)
    items = fs(6, 512)
    for rep in range(12):
        items += [{'c': i, 'rep': rep} for i in range(len(_CELLS))]
    # position enumerated for the asynchronous kinds
    for i, (f, m, nzcv, k) in enumerate(_CELLS):
        if k in ('irq', 'fiq'):
            for pos in range(IT.block_len(m) + 2):
                items.append({'c': i, 'rep': 9, 'pos': pos})
    return items


# 23 sixteen-bit flag-setting data-processing encodings: (name, encoder(rd, rm))
def _dp16():
    t = []
    for op, nme in ((0, 'lsl_imm'), (1, 'lsr_imm'), (2, 'asr_imm')):
        t.append((nme, (lambda op: lambda rd, rm: T.shift_imm(op, rd, rm, 3))(op)))
    t += [('add_reg', lambda rd, rm: T.add_reg(rd, rd, rm)), ('sub_reg', lambda rd, rm: T.sub_reg(rd, rd, rm)),
          ('add_imm3', lambda rd, rm: T.add_imm3(rd, rm, 5)), ('sub_imm3', lambda rd, rm: T.sub_imm3(rd, rm, 3)),
          ('mov_imm8', lambda rd, rm: T.mov_imm(rd, 0x9C)), ('add_imm8', lambda rd, rm: T.add_imm8(rd, 0x81)), ('sub_imm8', lambda rd, rm: T.sub_imm8(rd, 0x7F))]
    for op4, nme in ((0, 'and'), (1, 'eor'), (2, 'lsl'), (3, 'lsr'), (4, 'asr'), (5, 'adc'), (6, 'sbc'), (7, 'ror'), (9, 'rsb'), (12, 'orr'), (13, 'mul'), (14, 'bic'), (15, 'mvn')):
        t.append((nme, (lambda op4: lambda rd, rm: T.dp(op4, rd, rm))(op4)))
    return t


DP16 = _dp16()
assert len(DP16) == 23


def rand_dp32(rng):
    lo = lambda: rng.randrange(0, 6)
    ops = [0, 1, 2, 3, 4, 8, 10, 11, 13, 14]
    k = rng.randrange(8)
    if k == 0:      # data-processing (shifted register)
        return 0xEA000000 | rng.choice(ops) << 21 | rng.getrandbits(1) << 20 | lo() << 16 | rng.getrandbits(3) << 12 | lo() << 8 | rng.getrandbits(2) << 6 | rng.getrandbits(2) << 4 | lo()
    if k == 1:      # data-processing (modified immediate)
        return 0xF0000000 | rng.getrandbits(1) << 26 | rng.choice(ops) << 21 | rng.getrandbits(1) << 20 | lo() << 16 | rng.getrandbits(3) << 12 | lo() << 8 | rng.getrandbits(8)
    if k == 2:      # ADDW / SUBW / MOVW / MOVT
        return 0xF2000000 | rng.getrandbits(1) << 26 | rng.choice([0b00000, 0b01010, 0b00100, 0b01100]) << 20 | lo() << 16 | rng.getrandbits(3) << 12 | lo() << 8 | rng.getrandbits(8)
    if k == 3:      # LSL/LSR/ASR/ROR (register), 32-bit
        return 0xFA00F000 | rng.getrandbits(2) << 21 | rng.getrandbits(1) << 20 | lo() << 16 | lo() << 8 | lo()
    if k == 4:      # SXTH/UXTH/SXTB/UXTB with rotation
        return 0xFA0FF080 | rng.choice([0, 1, 4, 5]) << 20 | lo() << 8 | rng.getrandbits(2) << 4 | lo()
    if k == 5:      # MUL / MLA
        return 0xFB000000 | lo() << 16 | rng.choice([15, lo()]) << 12 | lo() << 8 | lo()
    if k == 6 and rng.random() < 0.5:
        rm = lo()
        return 0xFAB0F080 | rm << 16 | lo() << 8 | rm        # CLZ (Rm in both fields)
    # bit-field, saturating, parallel, halfword-multiply and long-multiply forms with in-range fields
    lsb = rng.randrange(0, 32)
    w1 = rng.randrange(0, 32 - lsb)
    rdlo, rdhi = rng.sample(range(6), 2)
    return rng.choice([
        0xF3C00000 | lo() << 16 | (lsb >> 2) << 12 | lo() << 8 | (lsb & 3) << 6 | w1,                    # UBFX
        0xF3400000 | lo() << 16 | (lsb >> 2) << 12 | lo() << 8 | (lsb & 3) << 6 | w1,                    # SBFX
        0xF3600000 | lo() << 16 | (lsb >> 2) << 12 | lo() << 8 | (lsb & 3) << 6 | (lsb + w1),            # BFI
        0xF3000000 | lo() << 16 | rng.getrandbits(3) << 12 | lo() << 8 | rng.getrandbits(2) << 6 | rng.randrange(0, 32),   # SSAT
        0xF3800000 | lo() << 16 | rng.getrandbits(3) << 12 | lo() << 8 | rng.getrandbits(2) << 6 | rng.randrange(0, 32),   # USAT
        0xFA90F000 | lo() << 16 | lo() << 8 | lo(),       # SADD16
        0xFA80F040 | lo() << 16 | lo() << 8 | lo(),       # UADD8
        0xFA80F080 | lo() << 16 | lo() << 8 | lo(),       # QADD
        0xFAA0F080 | lo() << 16 | lo() << 8 | lo(),       # SEL
        0xFB10F000 | lo() << 16 | lo() << 8 | rng.getrandbits(2) << 4 | lo(),      # SMULxy
        0xFBC00000 | lo() << 16 | rdlo << 12 | rdhi << 8 | lo(),                    # SMLAL
        0xFBA00000 | lo() << 16 | rdlo << 12 | rdhi << 8 | lo(),                    # UMULL
        0xFA90F0A0 | lo() << 16 | lo() << 8 | lo(),       # RBIT-family neighbour (REV forms use Rm twice; keep to SADD16-class fields)
    ][:12])


def _flags_change_outside(word, regs, nzcv):
    """run the 16-bit instruction outside any IT block on the real emulator: does it change NZCV and the destination?"""
    cfg = {'arch_version': 7, 'memory_system_architecture': 'PMSA', 'have_security_ext': False}
    arm = M.new_arm({'config': cfg, 'devices': [{'kind': 'ram', 'begin': G.CODE, 'end': G.CODE + 0x10}], 'reset': True})
    r = arm.registers
    r.sctlr.m = 0
    r.cpsr.value = 0x30 | nzcv << 28
    for i, v in enumerate(regs):
        r.set(i, v)
    M.poke(arm, G.CODE, emit([word, T.NOP], True))
    r.branch_to(G.CODE)
    arm.emulate_cycle()
    return (r.cpsr.value >> 28) != nzcv, [r.get(i) for i in range(8)] != list(regs)


def gen_failsweep(item, rng):
    cfg = {'arch_version': 7, 'have_security_ext': bool(rng.getrandbits(1)), 'have_virt_ext': False, 'have_lpae': False,
           'memory_system_architecture': 'PMSA', 'number_of_mpu_regions': 12}
    rprof = rng.random() < 0.5
    if rprof:
        cfg['is_armv7r_profile'] = True           # ARMv7-R: SDIV/UDIV by zero can be made to trap (SCTLR.DZ)
    devices = G.std_devices()
    G.set_data(devices[2], 0x3C0, bytes(rng.getrandbits(8) for _ in range(0x80)))
    nzcv = rng.getrandbits(4)
    cond = rng.choice([c for c in range(14) if not IT.cond_passed(c, nzcv)])
    mask = rng.choice([8, 8, 4, 0xC, 2])          # last slot (most often: branches are only defined there) or an inner slot
    cpsr = (G.random_cpsr(rng, cfg, mode=rng.choice(['usr', 'svc', 'sys', 'irq']), thumb=1, e=0) & 0x0FFFFFFF) | nzcv << 28
    regs = {'cpsr': cpsr, 'pc': G.CODE + 4 * rng.randrange(0, 64), 'sys': {'sctlr': G.sctlr_value(m=0, a=0, u=1, te=1) | (1 << 19 if rprof else 0)}, 'R': G.random_regfile(rng, cfg),
            'spsr': G.random_spsrs(rng, cfg, valid=True)}
    if item['k'] == 'failsweep16':
        n = 65536 // item['of']
        words = [(h << 16) | 0xBF00 for h in range(item['slice'] * n, item['slice'] * n + n)]
    elif item['k'] == 'failsweepC':
        allw = [w for isa, ws in G.census()['T'] if isa == 'T32' for w in ws]
        words = allw[item['slice']::item['of']]
    else:
        words = []
        for hi in range(item['slice'], item['slice'] + 8):
            for _ in range(item['rep']):
                words.append(((0xE80 + hi) << 4 | rng.getrandbits(4)) << 16 | rng.getrandbits(16))
        rng.shuffle(words)
    force = {'it': cond << 4 | mask, 'ctx': 9, 'thumb': 1}
    if rprof or rng.random() < 0.3:
        force['edge_regs'] = rng.randrange(1, 8)            # operands at the edges of the range, zero among them (a divisor)
    core = {'config': cfg, 'devices': devices, 'regs': regs, 'words': words, 'force': force, 'no_poke': []}
    return {'scenario': 'failsweep', 'cores': [core], 'events': [], 'max_ticks': len(words) + 2, 'stop_at_done': False, 'cond': cond, 'nzcv': nzcv, 'mask': mask}


def gen_hostret(item, rng):
    """An IT block one of whose slots is an SVC that the HOST services: after the Supervisor Call entry the integrator does what its handler would do
    and returns through the API - Registers.cpsr_write_by_instr(SPSR, 0b1111, True) and branch_to(LR) - between two steps.  The rest of the block must
    run under the IT state the SPSR carried."""
    f, mask = IT.legal_pairs()[item['pair']]
    n = IT.block_len(mask)
    cfg = {'arch_version': 7, 'have_security_ext': bool(rng.getrandbits(1)), 'have_virt_ext': False, 'have_lpae': False,
           'memory_system_architecture': 'PMSA', 'number_of_mpu_regions': 12}
    seq = [x >> 4 for x in IT.sequence(f, mask)[:-1]]          # the condition of each slot
    nzcv = rng.getrandbits(4)
    passing = [i for i, c in enumerate(seq) if IT.cond_passed(c, nzcv)]
    if not passing:
        nzcv = next(v for v in range(16) if IT.cond_passed(seq[0], v))
        passing = [i for i, c in enumerate(seq) if IT.cond_passed(c, nzcv)]
    j = rng.choice(passing)
    cpsr = (G.random_cpsr(rng, cfg, mode=rng.choice(['usr', 'sys']), thumb=1, e=0) & 0x0FFFFFFF & ~0x0600FC00) | nzcv << 28
    regs = {'cpsr': cpsr, 'pc': G.CODE + 4 * rng.randrange(0, 64), 'sys': {'sctlr': G.sctlr_value(m=0, a=0, u=1, te=rng.getrandbits(1), v=0), 'vbar': 0},
            'R': G.random_regfile(rng, cfg), 'spsr': G.random_spsrs(rng, cfg, valid=True)}
    body = [(T.mov_imm(rng.randrange(0, 6), rng.getrandbits(8)) if i != j else T.svc(rng.getrandbits(8))) << 16 | T.NOP for i in range(n)]
    words = [T.it(f, mask) << 16 | T.NOP] + body + [T.mov_imm(4, 0x77) << 16 | T.NOP, T.mov_imm(5, 0x55) << 16 | T.NOP]
    core = {'config': cfg, 'devices': G.std_devices(), 'regs': regs, 'words': words, 'force': None, 'no_poke': []}
    return {'scenario': 'hostret', 'cores': [core], 'events': [], 'max_ticks': len(words) + 2, 'stop_at_done': False, 'f': f, 'mask': mask, 'nzcv': nzcv, 'svc_slot': j}


def run_hostret(case):
    from sim.stream import StreamBoard
    b = StreamBoard(case, [])
    mon = EntryMonitor(b, 0, report=True, oracle='it.entry_model')
    b.observers = [mon]
    arm = b.cores[0].arm
    want = 0
    t = 0
    while True:
        r = arm.registers
        n0 = len(mon.taken)
        if not b.advance():
            break
        r = arm.registers
        it = r.cpsr.it
        if t == 0:
            want = IT.it_after_IT(case['f'], case['mask'])
        elif len(mon.taken) > n0:
            # the Supervisor Call was taken: the host services it and returns through the API
            if [k for _, k in mon.taken[n0:]] != ['svc'] or it != 0:
                b.violate('it.entry_model', 'svc', 'itstate_not_cleared' if it else 'wrong_kind', 'entries %s, ITSTATE %#x in the handler' % (mon.taken[n0:], it))
                break
            r.cpsr_write_by_instr(r.get_spsr(), 0b1111, True)
            r.branch_to(r.get_rmode(14, 0x13))
            b.count('fault.host-serviced-return')
            want = IT.it_advance(want)
            it = r.cpsr.it
        else:
            want = IT.it_advance(want)
        if it != want:
            b.violate('it.model', 'hostret', 'itstate', 'tick %d of IT %x,%x (SVC in slot %d, NZCV %x): ITSTATE %#x, model %#x' % (t, case['f'], case['mask'], case['svc_slot'], case['nzcv'], it, want))
            break
        t += 1
    b.cover.add('hostret|%x|%x|%d' % (case['f'], case['mask'], case['svc_slot']))
    return {'violations': b.violations, 'cover': b.cover, 'stats': b.stats, 'ticks': b.tick, 'digest': b.digest(), 'interesting': bool(b.violations)}


def gen_trapsweep(item, rng):
    """Hyp traps taken from inside IT blocks (Virtualization Extensions, Non-secure PL1/PL0): WFI/WFE under HCR.TWI/TWE, CP15/CP14 accesses under
    HSTR, coprocessor accesses under HCPTR, SMC under HCR.TSC and BXJ under HSTR.TJDBX, each executed in a slot whose condition PASSES, at every
    position of the block.  The emulator takes these exceptions by a direct call from inside execute(): what runs after that call returns (IT
    advance, PC increment, the rest of the instruction) must not touch the state the entry left - ITSTATE zero, SPSR_hyp with the IT state of the
    trapped instruction.  The regime is re-installed before every tick, so every word meets the same Non-secure state"""
    cfg = {'arch_version': 7, 'have_security_ext': True, 'have_virt_ext': True, 'have_lpae': False, 'memory_system_architecture': 'VMSA'}
    devices = G.std_devices()
    nzcv = rng.getrandbits(4)
    mode = rng.choice(['usr', 'svc', 'svc', 'irq', 'sys'])
    cpsr = (G.random_cpsr(rng, cfg, mode=mode, thumb=1, e=0) & 0x0FFFFFFF) | nzcv << 28
    sys = {'sctlr': G.sctlr_value(m=0, a=0, u=1, te=1), 'scr': 1 | rng.getrandbits(2) << 4, 'hcr': 1 << 13 | 1 << 14 | 1 << 19, 'hstr': 0xFFFF | 1 << 16 | 1 << 17,
           'hcptr': 0x33FF, 'nsacr': 0x3FFF | 1 << 19, 'cpacr': 0x0FFFFFFF, 'hsctlr': rng.getrandbits(1) << 30, 'hvbar': G.LOW + 0x600}
    regs = {'cpsr': cpsr, 'pc': G.CODE + 4 * rng.randrange(0, 64), 'sys': sys, 'R': G.random_regfile(rng, cfg), 'spsr': G.random_spsrs(rng, cfg, valid=True),
            'event_register': False}
    passing = [c for c in range(14) if IT.cond_passed(c, nzcv)] + [14]
    w16 = lambda h: h << 16 | 0xBF00
    inner = [w16(T.hint(3)), w16(T.hint(2)), 0xF3AF8003, 0xF3AF8002,                                   # WFI, WFE, WFI.W, WFE.W
             0xEE010F10, 0xEE110F10, 0xEE070F15, 0xEE1D0F70, 0xEC510F02,                                # MCR/MRC p15 (c1, c7, c13), MRRC p15
             0xEE001E10 | 6 << 21, 0xEE100E10 | 6 << 21 | 1 << 16,                                     # MCR/MRC p14, 6 (ThumbEE registers)
             0xEE000100, 0xEE010210, 0xEE110210, 0xED900300, 0xEC410402]                                # CDP p1, MCR/MRC p2, LDC p3, MCRR p4
    last = [0xF7F08000 | rng.getrandbits(4) << 16, 0xF3C08F00 | rng.randrange(0, 13) << 16]           # SMC, BXJ: only as the last instruction of a block
    words, its = [], []
    for _ in range(48):
        mask = rng.choice([4, 0xC, 2, 6, 0xA, 0xE, 1, 3, 5, 7, 9, 0xB, 0xD, 0xF, 8, 8])
        cond = rng.choice(passing)
        if cond == 14:
            mask = rng.choice([8, 4, 2, 1])
        words.append(rng.choice(inner + (last if mask == 8 else [])))
        its.append(cond << 4 | mask)
    events = [{'tick': t, 'core': 0, 'kind': 'regime', 'regs': dict(regs, cpsr=(cpsr & ~0x0600FC00) | (its[t] & 3) << 25 | (its[t] >> 2) << 10)} for t in range(1, len(words))]
    regs['cpsr'] = (cpsr & ~0x0600FC00) | (its[0] & 3) << 25 | (its[0] >> 2) << 10
    # a warm reset arriving in the middle of a block (the regime of that tick is installed first): Reset is an exception too and clears ALL of ITSTATE
    for t in rng.sample(range(1, len(words)), 6):
        events.append({'tick': t, 'core': 0, 'kind': 'reset'})
    events.sort(key=lambda e: (e['tick'], e['kind'] == 'reset'))
    core = {'config': cfg, 'devices': devices, 'regs': regs, 'words': words, 'force': None, 'no_poke': []}
    return {'scenario': 'trapsweep', 'cores': [core], 'events': events, 'max_ticks': len(words) + 2, 'stop_at_done': False, 'nzcv': nzcv}


class TrapObserver:
    def __init__(self, mon):
        self.mon = mon

    def on_tick(self, b, rec):
        if rec['what'] != 'step':
            return
        kinds = [k for t, k in self.mon.taken if t == rec['tick']]
        arm = b.cores[0].arm
        name = type(arm.executed_opcode).__name__
        site = name[:-2] if name[-2:] in ('A1', 'A2', 'T1', 'T2', 'T3', 'T4') else name
        if 'hyptrap' in kinds:
            b.count('fault.hyp-trap-in-it-block')
            b.cover.add('trapsweep|%s|%x|%s' % (site, (rec['pre'][1] >> 10) & 0xF and 1, 'nie' if rec['nie'] else 'done'))
            post = rec['post'][1]
            if not rec['exc'] and (((post >> 8) & 0xFC) | ((post >> 25) & 3)):
                # (also when the step ended in a declared-unimplemented hook after the trap: the Hyp handler must not inherit an IT state)
                b.violate('it.entry_model', site, 'itstate_not_cleared', '%s (word %#x) trapped to Hyp mode from ITSTATE %#x: the handler starts with ITSTATE %#x' % (
                    name, arm.opcode, ((rec['pre'][1] >> 8) & 0xFC) | ((rec['pre'][1] >> 25) & 3), ((post >> 8) & 0xFC) | ((post >> 25) & 3)))
        else:
            b.cover.add('~trapsweep-no-trap|%s' % site)


def run_trapsweep(case):
    from sim.stream import StreamBoard
    p0 = M.env.print_count[0]
    b = StreamBoard(case, [])
    mon = EntryMonitor(b, 0, report=True, oracle='it.entry_model')
    b.observers = [mon, TrapObserver(mon)]
    b.run()
    b.count('prints', M.env.print_count[0] - p0)
    return {'violations': b.violations, 'cover': b.cover, 'stats': b.stats, 'ticks': b.tick, 'digest': b.digest(), 'interesting': bool(b.violations)}


class FailObserver:
    """every tick starts in an IT slot whose condition fails: the instruction must do nothing (or be rejected as undefined / unimplemented)"""

    def __init__(self, mon):
        self.mon = mon

    def on_tick(self, b, rec):
        if rec['what'] != 'step' or rec['nie'] or rec['exc']:
            return
        arm = b.cores[0].arm
        name = type(arm.executed_opcode).__name__
        site = name[:-2] if name[-2:] in ('A1', 'A2', 'T1', 'T2', 'T3', 'T4') else name
        kinds = [k for t, k in self.mon.taken if t == rec['tick']]
        pre, post = rec['pre'], rec['post']
        if kinds:
            if any(k != 'und' for k in kinds):
                b.violate('it.effect', 'failsweep', 'failed_condition_took_exception', 'word %#x under failing condition %d (NZCV %x): %s exception taken' % (
                    arm.opcode, b.case['cond'], b.case['nzcv'], kinds))
            elif site in ('Sdiv', 'Udiv') and arm.opcode == getattr(arm.executed_opcode, 'instruction', arm.opcode):
                # SDIV / UDIV are DEFINED instructions: their divide-by-zero trap (ARMv7-R, SCTLR.DZ) belongs to the body that a failing condition skips
                b.violate('it.effect', site, 'failed_condition_took_exception', '%s (word %#x) under failing condition %d took its divide-by-zero Undefined Instruction trap' % (
                    name, arm.opcode, b.case['cond']))
            else:
                b.cover.add('~failsweep-und')
            return
        if site == 'EnterxLeavex':
            # ENTERX / LEAVEX are UNPREDICTABLE inside an IT block (ARM ARM A9.3.1: 'if InITBlock() then UNPREDICTABLE'): nothing to assert.
            # (The seed-1 sweep never drew a word of this class; seeds 31 and 32 did - 0xf3bfa21d - and the check raised a false alarm.)
            b.cover.add('~failsweep-unpredictable-in-it')
            return
        if (pre[1] ^ post[1]) & ~0x0600FC00 or pre[2:] != post[2:] or any(x != y for i, (x, y) in enumerate(zip(pre[0], post[0])) if M.RNAMES[i] != 'PC'):
            chg = [M.RNAMES[i] for i, (x, y) in enumerate(zip(pre[0], post[0])) if x != y and M.RNAMES[i] != 'PC']
            b.violate('it.effect', site, 'failed_condition_took_effect', '%s (word %#x) under failing condition %d (NZCV %x, ITSTATE %#x): changed %s cpsr %#x -> %#x' % (
                name, arm.opcode, b.case['cond'], b.case['nzcv'], b.case['cores'][0]['force']['it'], chg, pre[1], post[1]))
            return
        it0 = ((pre[1] >> 8) & 0xFC) | ((pre[1] >> 25) & 3)
        it1 = ((post[1] >> 8) & 0xFC) | ((post[1] >> 25) & 3)
        if it1 != IT.it_advance(it0):
            # the skipped instruction still occupies its slot: ITSTATE advances exactly once, whether the word decodes to something or to nothing
            b.violate('it.model', site, 'itstate_not_advanced', 'word %#x under failing condition %d: ITSTATE %#x -> %#x, ITAdvance gives %#x' % (
                arm.opcode, b.case['cond'], it0, it1, IT.it_advance(it0)))
            return
        mem = (M.peek(arm, G.DATA, 0x1000), M.peek(arm, G.STACKS, 0x1000))
        if getattr(self, 'mem', mem) != mem:
            b.violate('it.effect', site, 'failed_condition_took_effect', '%s (word %#x) under failing condition %d wrote memory' % (name, arm.opcode, b.case['cond']))
        self.mem = mem
        b.cover.add('failsweep|%s' % site)


def run_failsweep(case):
    from sim.stream import StreamBoard
    p0 = M.env.print_count[0]
    b = StreamBoard(case, [])
    mon = EntryMonitor(b, 0, report=False)
    b.observers = [mon, FailObserver(mon)]
    b.run()
    b.count('prints', M.env.print_count[0] - p0)
    b.count('fault.failing-slot', b.tick)
    return {'violations': b.violations, 'cover': b.cover, 'stats': b.stats, 'ticks': b.tick, 'digest': b.digest(), 'interesting': bool(b.violations)}


def gen(item, rng, tier):
    global _CELLS
    if item.get('k') in ('failsweep16', 'failsweep32', 'failsweepC'):
        return gen_failsweep(item, rng)
    if item.get('k') == 'trapsweep':
        return gen_trapsweep(item, rng)
    if item.get('k') == 'hostret':
        return gen_hostret(item, rng)
    if _CELLS is None:
        _CELLS = cells()
    f, mask, nzcv, kind = _CELLS[item['c']]
    n = IT.block_len(mask)
    seq = IT.sequence(f, mask)
    te = rng.getrandbits(1)
    mode = rng.choice(['usr', 'sys', 'svc'] if kind != 'svc' else ['usr', 'sys'])     # SVC from Supervisor mode overwrites the main program's own LR
    regs0 = [rng.getrandbits(32) | 0x10 for _ in range(6)] + [P.DBASE, DENY]      # r0-r5 scratch, r6 data pointer, r7 denied-page pointer
    # static pass/fail of each slot under the initial flags (valid until a CMP slot changes them)
    passes = [IT.cond_passed(seq[i] >> 4, nzcv) for i in range(n)]
    slots = []
    special = None
    if kind in ('svc', 'udf', 'dabt'):
        cand = list(range(n))
        if kind == 'udf':
            cand = [i for i in range(n) if passes[i]]
        special = rng.choice(cand) if cand else None
        if special is None:
            kind = 'none'           # no passing slot for a UDF in this cell: plain block
    flags_static = True
    written = set()
    sp_loaded = stack_used = dirty = False
    e_main = int(rng.random() < 0.25)                                     # big-endian data in the main program: memory effects are compared in that byte order
    bo = 'big' if e_main else 'little'
    for i in range(n):
        last = i == n - 1
        if i == special:
            if kind == 'svc':
                slots.append({'t': 'svc', 'w': T.svc(rng.getrandbits(8))})
            elif kind == 'udf':
                slots.append({'t': 'udf', 'w': T.udf(rng.getrandbits(8))})
            else:
                load = rng.getrandbits(1)
                rt = rng.randrange(0, 6)
                slots.append({'t': 'ldr_deny' if load else 'str_deny', 'w': T.ldst_imm('ldr' if load else 'str', rt, 7, rng.randrange(0, 8)), 'rt': rt})
            continue
        choices = ['mov', 'mov', 'dp16', 'dp16', 'dp16', 'movw', 'addw', 'str', 'ldr', 'mrs', 'ldrw', 'strw', 'rand32', 'rand32', 'multi']
        if not (kind == 'udf' and special is not None and i < special):
            choices.append('cmp')           # a CMP before the UDF slot would invalidate its static pass/fail
        if last and rng.random() < 0.3:
            choices = ['b']
        t = rng.choice(choices)
        rd = rng.randrange(0, 6)
        written_before = set(written)
        written.add(rd)
        if t == 'mov':
            imm = 0x20 + 8 * i + rng.randrange(8)
            slots.append({'t': 'mov', 'w': T.mov_imm(rd, imm), 'rd': rd, 'imm': imm})
        elif t == 'dp16':
            for _ in range(40):
                nme, enc = rng.choice(DP16)
                rm = rng.randrange(0, 6)
                w = enc(rd, rm)
                chg_flags, chg_reg = _flags_change_outside(w, regs0, nzcv if flags_static else rng.getrandbits(4))
                if chg_flags and chg_reg and flags_static:
                    break
            else:
                nme, w = 'mov_imm8', T.mov_imm(rd, 0x9C)
            slots.append({'t': 'dp16', 'w': w, 'rd': rd, 'rm': rm, 'name': nme, 'nonvacuous': bool(flags_static) and rd not in written_before and rm not in written_before and not dirty})
        elif t == 'movw':
            imm = 0x40 + i
            slots.append({'t': 'mov', 'w': T.mov_w(rd, imm), 'rd': rd, 'imm': imm})
        elif t == 'addw':
            slots.append({'t': 'chg', 'w': T.add_w(rd, rd, 0x11 + i), 'rd': rd})
        elif t == 'rand32':
            # a seeded member of the 32-bit Thumb data-processing families (registers r0-r5 only, so no UNPREDICTABLE forms):
            # checked for 'failing condition => no register, flag or memory change' and for the ITSTATE advance
            slots.append({'t': 'any', 'w': rand_dp32(rng), 'name': 'dp32'})
            dirty = True              # r0-r5 may hold anything from here on: later 'register must change' expectations are off
        elif t == 'multi':
            kindm = rng.choice(['stm', 'ldm', 'ldrd', 'strd', 'nop', 'nopw', 'msr_x', 'msr_x', 'hi16', 'hi16', 'adr', 'ldrex', 'misc32', 'wfe', 'msr_g'] +
                               ([] if sp_loaded else ['push', 'pop', 'push', 'pop', 'popw', 'spadj']))
            if kindm == 'msr_x' and e_main:
                kindm = 'nop'                         # (MSR CPSR_x from a pointer register would clear the E bit the program runs with)
            if kindm in ('push', 'pop', 'popw', 'spadj'):
                stack_used = True                     # (only in blocks in which no slot loads SP from memory)
            if kindm in ('stm', 'ldm'):
                lst = rng.getrandbits(5) | rng.choice([1, 2, 3])
                if bin(lst).count('1') < 2:
                    lst |= 0x18
                w = T.ldstm_w(kindm == 'ldm', 6, lst, db=0, w=0)            # base r6 (data page), no write-back
            elif kindm == 'hi16':
                # 16-bit forms with high registers: ADD Rdn,Rm / MOV Rd,Rm (neither sets flags)
                lo_, hi_ = rng.randrange(0, 6), rng.choice([8, 9, 10, 11, 12])
                hd = rng.choice([8, 12]) & 7           # high destination: r8 or r12 only (r9-r11 hold the branch target and the table indices)
                w = rng.choice([0x4400 | hi_ << 3 | lo_, 0x4600 | hi_ << 3 | lo_, 0x4680 | lo_ << 3 | hd, 0x4480 | lo_ << 3 | hd])
            elif kindm == 'adr':
                w = rng.choice([0xA000 | rng.randrange(6) << 8 | rng.getrandbits(8), 0xA800 | rng.randrange(6) << 8 | rng.getrandbits(8),
                                0xF20F0000 | rng.randrange(6) << 8 | rng.getrandbits(8), 0xF2AF0000 | rng.randrange(6) << 8 | rng.getrandbits(8)])
            elif kindm == 'spadj':
                w = rng.choice([0xB000, 0xB080]) | rng.randrange(1, 8)               # ADD sp,#imm / SUB sp,#imm
            elif kindm == 'ldrex':
                w = rng.choice([0xE8560F00 | rng.randrange(6) << 12 | rng.randrange(4), 0xE8460000 | rng.randrange(4) << 12 | 5 << 8 | rng.randrange(4),
                                0xF3BF8F2F, 0xF896F000 | rng.getrandbits(8)])       # LDREX / STREX r5,rt,[r6] / CLREX / PLD [r6,#imm]
            elif kindm == 'misc32':
                lo = lambda: rng.randrange(0, 6)
                rm_ = lo()
                w = rng.choice([0xFA90F080 | rm_ << 16 | lo() << 8 | rm_, 0xFA90F0A0 | rm_ << 16 | lo() << 8 | rm_,       # REV / RBIT
                                0xFB90F0F0 | lo() << 16 | lo() << 8 | lo(), 0xFBB0F0F0 | lo() << 16 | lo() << 8 | lo(),   # SDIV / UDIV
                                0xFB000010 | lo() << 16 | lo() << 12 | lo() << 8 | lo(),                                  # MLS
                                0xFA40F080 | lo() << 16 | lo() << 8 | rng.getrandbits(2) << 4 | lo(),                     # SXTAB
                                0xFA1FF080 | lo() << 8 | rng.getrandbits(2) << 4 | lo(),                                  # UXTH
                                0xFB700000 | lo() << 16 | lo() << 12 | lo() << 8 | lo()])                                 # USADA8
            elif kindm in ('push', 'pop'):
                w = (0xB400 if kindm == 'push' else 0xBC00) | (rng.getrandbits(5) | 1)
            elif kindm == 'popw':
                w = rng.choice([0xE8BD0000 | (rng.getrandbits(5) | 3), 0xF85D0B04 | rng.randrange(5) << 12])      # POP.W {list} / LDR rt,[sp],#4
            elif kindm == 'msr_x':
                # MSR CPSR_x / CPSR_sx from a pointer register whose bits 15:10 are not zero: only an exception return may write the IT bits
                w = 0xF3808000 | rng.choice([6, 7]) << 16 | rng.choice([2, 6]) << 8
            elif kindm in ('ldrd', 'strd'):
                ra, rb = rng.sample(range(5), 2)
                w = T.ldstd(kindm == 'ldrd', ra, rb, 6, rng.randrange(0, 16))
            elif kindm == 'msr_g':
                # MSR APSR_g, Rn: writes the GE field and nothing else, whatever the other bits of Rn hold (the registers are random words)
                w = 0xF3808400 | rng.randrange(0, 6) << 16
            elif kindm == 'wfe':
                # WFE with the Event Register clear: the processor really waits in the middle of the block (the board lets it sleep) until an event
                # - the SEV scheduled behind the program, or an interrupt - wakes it; the instruction occupies one slot, however long the wait
                w = rng.choice([0xBF20, 0xF3AF8002])
            else:
                w = T.NOP if kindm == 'nop' else T.NOP_W
            slots.append({'t': 'any', 'w': w, 'name': kindm})
            dirty = True
        elif t in ('ldrw', 'strw'):
            # 32-bit load/store whose second halfword starts with every Rt value, SP included (hw2[15:12] = 0b1101 looks like a B<c> halfword)
            rt = rng.choice([rd, rd, 13 if (t == 'ldrw' and not stack_used) else rd, 12, 8])
            if rt == 13:
                sp_loaded = True
            off = rng.randrange(0, 16)
            if t == 'ldrw':
                slots.append({'t': 'ldr', 'w': T.ldr_w(rt, 6, 4 * off + rng.choice([0, 0x100, 0x300]) * 0), 'rd': rt, 'addr': P.DBASE + 4 * off})
            else:
                slots.append({'t': 'str', 'w': T.str_w(rt, 6, 4 * off), 'rt': rt, 'addr': P.DBASE + 4 * off})
        elif t == 'mrs':
            slots.append({'t': 'chg', 'w': T.mrs(rd), 'rd': rd, 'name': 'mrs', 'nonvacuous': rd not in written_before and not dirty})        # 32-bit system instruction: conditional like any other
        elif t == 'cmp':
            slots.append({'t': 'cmp', 'w': T.cmp_imm(rd, rng.choice([0, 0x10, 0xFF, regs0[rd] & 0xFF]))})
            flags_static = False
        elif t == 'str':
            off = rng.randrange(0, 16)
            slots.append({'t': 'str', 'w': T.ldst_imm('str', rd, 6, off), 'rt': rd, 'addr': P.DBASE + 4 * off})
        elif t == 'ldr':
            off = rng.randrange(0, 16)
            slots.append({'t': 'ldr', 'w': T.ldst_imm('ldr', rd, 6, off), 'rd': rd, 'addr': P.DBASE + 4 * off})
        elif t == 'b':
            # a branch as last slot, skipping the 16-bit marker that follows the block: B (T2), B.W (T4), BL, BX Rm, BLX Rm
            form = rng.choice(['b', 'b', 'bw', 'bl', 'bx', 'blx', 'movpc', 'ldrpc', 'tbb', 'tbh', 'ldmpc', 'ldmpcw', 'bx_arm', 'blx_arm', 'ldrpc_arm'] +
                              ([] if (sp_loaded or stack_used) else ['poppc', 'poppc', 'poppcw', 'poppc_arm']))
            # the *_arm forms are interworking branches to ARM state: the target is a three-word ARM stub in the data page that comes back to the
            # Thumb continuation with LDR pc,[pc,#-4] (the block must have retired its ITSTATE although the next instruction is not a Thumb one)
            w = {'b': T.b(4), 'bw': 0xF000B801, 'bl': 0xF000F801, 'bx': T.bx(9), 'blx': 0x4780 | 9 << 3, 'movpc': 0x46CF,
                 'bx_arm': T.bx(9), 'blx_arm': 0x4780 | 9 << 3, 'ldrpc_arm': 0xF8D6F0FC, 'poppc_arm': 0xBD10,
                 'ldrpc': 0xF8D6F0FC, 'tbb': 0xE8D6F00A, 'tbh': 0xE8D6F01B, 'poppc': 0xBD10, 'poppcw': 0xE8BD8010,
                 'ldmpc': 0xE89B8010, 'ldmpcw': 0xE8BB8010}[form]           # LDMIA.W r11{!}, {r4, pc}: r11 points at a prepared frame in the data page           # POP {r4,pc}: the compiler's conditional return          # LDR pc,[r6,#0xFC]: the word there is the target (Thumb bit set)
            slots.append({'t': 'b', 'w': w, 'form': form, 'name': 'branch_' + form})
    # optional prologue / epilogue: the very same MOVS halfwords that sit in the block are also executed outside it, where they
    # must set N/Z (and inside they must not) — decode-time context must not leak from one execution to the next
    movs = [s2['w'] for s2 in slots if s2['t'] == 'mov' and s2['w'] <= 0xFFFF and (s2['w'] & 0xFF)]
    prologue, epilogue = [], []
    if movs and rng.random() < 0.5:
        if rng.random() < 0.5:
            prologue = list(movs) + [T.msr(8, 8, 0)]          # MSR APSR_nzcvq, r8 puts the cell's flags back
        else:
            epilogue = [T.dp(10, 6, 6), rng.choice(movs)]     # CMP r6,r6 (Z=1) ; MOVS rd,#imm must clear Z again
    if prologue:
        touched = set((w >> 8) & 7 for w in movs)
        for s2 in slots:
            if s2['t'] == 'dp16' and (s2['rd'] in touched or s2.get('rm') in touched):
                s2['nonvacuous'] = False
    words = prologue + [T.it(f, mask)] + [s['w'] for s in slots]
    if slots[-1]['t'] == 'b':
        words.append(T.mov_imm(5, 0xB5))                     # skipped iff the branch executed
    words += epilogue + [T.mov_imm(4, 0x77), T.SELF]
    code = emit(words, True)
    pro_len = len(emit(prologue, True))
    rets = {k: rng.choice((P.RETURNS_THUMB if te else P.RETURNS_ARM)[k]) for k in ('irq', 'fiq', 'svc', 'und', 'dabt')}
    rets['und'] = 'patch_retry'
    low, hinfo = P.build_low(te, rets)
    devices = G.std_devices(high=False)
    G.set_data(devices[0], 0, low)
    G.set_data(devices[1], 0, code)
    G.set_data(devices[2], 0x400, bytes(rng.getrandbits(8) | 1 for _ in range(0x100)))
    G.set_data(devices[2], 0x800, bytes(rng.getrandbits(8) | 1 for _ in range(0x20)))
    cfg = {'arch_version': 7, 'have_security_ext': rng.random() < 0.5, 'have_virt_ext': False, 'have_lpae': False,
           'memory_system_architecture': 'PMSA', 'number_of_mpu_regions': 12}
    mpu = [(0, 0, 0)] * 12
    mpu[0] = (1 | 31 << 1, 0, 3 << 8)
    mpu[5] = (1 | 4 << 1, DENY, 0) if kind == 'dabt' else (0, DENY, 0)
    extra = dict(G.mpu_sys(mpu, nu=rng.getrandbits(1)))
    ee = int(rng.random() < 0.3)
    st = P.main_state(rng, cfg, mode, 1, te, extra, e=e_main, ee=ee)
    st['sys']['sctlr'] = G.sctlr_value(m=1, a=0, u=1, te=te, v=0, br=1, ee=ee) | (st['sys']['sctlr'] & 1 << 24)
    if cfg['have_security_ext'] and rng.random() < 0.4:
        # Non-secure program and handlers (SCR.AW seeded; FW=1 so that a Non-secure FIQ entry can mask F)
        st['sys']['scr'] = 1 | 1 << 4 | rng.getrandbits(1) << 5
    st['cpsr'] = (st['cpsr'] & 0x0FFFFFFF) | nzcv << 28
    for i, v in enumerate(regs0):
        st['R']['R%dusr' % i] = v
    st['R']['R8usr'] = nzcv << 28
    core = {'config': cfg, 'devices': devices, 'regs': st, 'done_pc': G.CODE + len(code) - 2}
    if rng.random() < 0.2:
        core['custom_fetch'] = True          # an integrator's fetch unit in place of the stock fetch_instruction() (sim/machine.py)
    # slot addresses
    addrs = []
    a = G.CODE + pro_len + 2
    for s in slots:
        addrs.append(a)
        a += size_of(s['w'], True)
    if slots[-1]['t'] == 'b':
        tgt = addrs[-1] + size_of(slots[-1]['w'], True) + 2        # just behind the marker
        st['R']['R9usr'] = tgt | 1
        slots[-1]['target'] = tgt
        dest = tgt | 1
        if slots[-1].get('form', '').endswith('_arm'):
            stub = P.DBASE + 0xC0
            G.set_data(devices[2], 0x4C0, (0xE1A00000).to_bytes(4, 'little') + (0xE51FF004).to_bytes(4, 'little') + (tgt | 1).to_bytes(4, bo))      # NOP ; LDR pc,[pc,#-4] ; .word tgt|1
            st['R']['R9usr'] = dest = stub
            slots[-1]['target'] = stub
        G.set_data(devices[2], 0x4FC, dest.to_bytes(4, bo))
        # TBB [r6, r10] / TBH [r6, r11, LSL #1]: r10 = 0xF8, r11 = 0x7A (table entries at DBASE+0xF8 / +0xF4), entry 1 = skip the 16-bit marker
        st['R']['R10usr'], st['R']['R11usr'] = 0xF8, 0x7A
        if slots[-1].get('form') in ('ldmpc', 'ldmpcw'):
            st['R']['R11usr'] = P.DBASE + 0xE8
            G.set_data(devices[2], 0x4E8, (0x4444).to_bytes(4, bo) + (tgt | 1).to_bytes(4, bo))
        G.set_data(devices[2], 0x4F8, bytes([1]))
        G.set_data(devices[2], 0x4F4, (1).to_bytes(2, bo))
        if slots[-1].get('form') in ('poppc', 'poppcw', 'poppc_arm'):
            top = P.STACK_TOP['usr' if mode in ('usr', 'sys') else 'svc']
            G.set_data(devices[3], top - G.STACKS, (0x4444).to_bytes(4, bo) + dest.to_bytes(4, bo))
    events = []
    pos = None
    if kind in ('irq', 'fiq'):
        pos = item.get('pos', rng.randrange(0, n + 2))
        events.append({'tick': len(prologue) + pos, 'core': 0, 'kind': kind})
        if rng.random() < 0.25:
            events.append({'tick': len(prologue) + pos + rng.randrange(1, 6), 'core': 0, 'kind': 'fiq' if kind == 'irq' else 'irq'})
        if rets[kind] == 'spsr_nest':
            # the same line again while the (re-entrant) handler runs: delivered in its interrupt-enabled window, into the same mode
            events.append({'tick': len(prologue) + pos + rng.randrange(2, hinfo[kind][2] + 2), 'core': 0, 'kind': kind})
    elif special is not None:
        pos = special + 1
    hl = sum(v[2] for v in hinfo.values())
    meta = {'thumb': 1, 'te': te, 'bo': bo, 'e': e_main, 'mode': mode, 'returns': rets, 'main_lo': G.CODE, 'main_hi': G.CODE + len(code), 'handlers': {k: list(v) for k, v in hinfo.items()},
            'firstcond': f, 'mask': mask, 'nzcv': nzcv, 'kind': kind, 'pos': pos, 'slots': slots, 'slot_addrs': addrs, 'special': special,
            'it_addr': G.CODE + pro_len, 'epi_addr': (a + (2 if slots[-1]['t'] == 'b' else 0) + 2) if epilogue else None, 'pro_len': pro_len}
    for i_, s_ in enumerate([s_ for s_ in slots if s_.get('name') == 'wfe']):
        # (one event per waiting slot: each wake-up consumes the Event Register)
        events.append({'tick': len(words) + 20 + 12 * i_ + rng.randrange(0, 8), 'core': 0, 'kind': 'sev'})
    if rng.random() < 0.1:
        events.append({'tick': rng.randrange(0, len(words) + 4), 'core': 0, 'kind': 'regswap'})          # register file replaced by a deep copy of itself
        events.sort(key=lambda e: e['tick'])
    # (a block that waits in a WFE resumes when the SEV behind the program arrives - the clock jumps there - and still needs its handlers' ticks afterwards)
    return {'scenario': 'it_block', 'cores': [core], 'meta': meta, 'events': events,
            'max_ticks': len(words) + 3 * (hl + 10) + 40 + (60 if any(s_.get('name') == 'wfe' for s_ in slots) else 0)}


# ------------------------------------------------------------------ execution

def sub_flags(a, b):
    r = (a - b) & 0xFFFFFFFF
    n = r >> 31
    z = int(r == 0)
    c = int(a >= b)
    v = ((a ^ b) & (a ^ r)) >> 31
    return n << 3 | z << 2 | c << 1 | v


class ITObserver:
    def __init__(self, meta, mon, ideal):
        self.meta, self.mon, self.ideal = meta, mon, ideal
        self.seq = IT.sequence(meta['firstcond'], meta['mask'])
        self.mode = M.MODES[meta['mode']]
        self.views = []
        self.passed = []
        self.taken_in_block = False
        self.patched = set()

    def on_tick(self, b, rec):
        meta = self.meta
        if rec['what'] in ('irq', 'fiq'):
            pre_it = IT_of(rec['pre'][1])
            if pre_it & 0xF:
                self.taken_in_block = True
            return
        if rec['what'] != 'step' or not (meta['main_lo'] <= rec['pre_pc'] < meta['main_hi']) or rec['pre'][1] & 0x1F != self.mode:
            return
        arm = b.cores[0].arm
        pre_cpsr, post_cpsr = rec['pre'][1], rec['post'][1]
        pre_it, post_it = IT_of(pre_cpsr), IT_of(post_cpsr)
        pc = rec['pre_pc']
        entered = [k for t, k in self.mon.taken if t == rec['tick']]
        cellsite = 'fc%x.m%x' % (meta['firstcond'], meta['mask'])
        if pc == meta['it_addr']:
            want = IT.it_after_IT(meta['firstcond'], meta['mask'])
            if pre_it != 0 or (post_it != want and not entered):
                b.violate('it.state', 'ItT1', 'itstate_after_it', 'IT %x,%x: ITSTATE %#x -> %#x, model 0 -> %#x' % (meta['firstcond'], meta['mask'], pre_it, post_it, want))
            return
        if pc in meta['slot_addrs']:
            i = meta['slot_addrs'].index(pc)
            slot = meta['slots'][i]
            if pre_it != self.seq[i]:
                b.violate('it.state', slot['t'], 'itstate_before_slot', 'slot %d (%s) of IT %x,%x starts with ITSTATE %#x, model %#x (kind %s, te %d)' % (
                    i, slot['t'], meta['firstcond'], meta['mask'], pre_it, self.seq[i], meta['kind'], meta['te']))
                return
            nzcv = pre_cpsr >> 28
            passed = IT.cond_passed(pre_it >> 4, nzcv)
            t = slot['t']
            if t == 'udf' and pc in self.patched:
                t = 'nop'
            if self.ideal:
                t = {'svc': 'nop', 'udf': 'nop'}.get(t, t)
                self.granted = True
            if entered:
                self.taken_in_block = True
                kind = entered[0]
                ok_kind = {'svc': 'svc', 'udf': 'und', 'ldr_deny': 'dabt', 'str_deny': 'dabt'}.get(t)
                if kind != ok_kind:
                    b.violate('it.effect', t, 'unexpected_exception', 'slot %d (%s) raised %s' % (i, t, kind))
                elif not passed and t != 'udf':
                    b.violate('it.effect', t, 'failed_condition_took_effect', 'slot %d: %s under failing condition %x (NZCV %x, ITSTATE %#x) still raised %s' % (
                        i, t, pre_it >> 4, nzcv, pre_it, kind))
                return
            if post_it != self.seq[i + 1]:
                b.violate('it.state', slot['t'], 'itstate_after_slot', 'slot %d (%s, passed=%s): ITSTATE %#x -> %#x, model -> %#x' % (i, t, passed, pre_it, post_it, self.seq[i + 1]))
                return
            self.passed.append(passed)
            preR = dict(zip(M.RNAMES, rec['pre'][0]))
            postR = dict(zip(M.RNAMES, rec['post'][0]))
            bank = lambda n: postR[_phys(n, self.mode)], lambda n: preR[_phys(n, self.mode)]
            post_r, pre_r = bank
            flags_same = (post_cpsr >> 28) == nzcv
            gpr_same = all(post_r(n) == pre_r(n) for n in range(15)) and (t != 'b' or passed or postR['PC'] == pc + size_of(slot['w'], True))
            mem_now = M.digest_of(M.peek(arm, P.DBASE, 0x100) + M.peek(arm, DENY, 0x20))
            mem_same = mem_now == self.last_mem
            self.last_mem = mem_now
            if not passed:
                if not (flags_same and gpr_same and mem_same) or (t in ('svc',) and entered):
                    b.violate('it.effect', t, 'failed_condition_took_effect', 'slot %d (%s) under failing condition %x (NZCV %x): %s' % (
                        i, t, pre_it >> 4, nzcv, 'flags changed' if not flags_same else 'register/memory changed'))
                return
            # condition passed: the slot must have taken effect
            if t in ('svc', 'ldr_deny', 'str_deny') and not entered and not (t != 'svc' and self.granted):
                b.violate('it.effect', t, 'passed_condition_no_effect', 'slot %d (%s) passed its condition but no exception was taken' % (i, t))
            elif t == 'udf':
                b.violate('it.effect', t, 'passed_condition_no_effect', 'UDF in a passing slot did not trap')
            elif t == 'mov' and post_r(slot['rd']) != slot['imm']:
                b.violate('it.effect', t, 'passed_condition_no_effect', 'slot %d: r%d = %#x, expected %#x' % (i, slot['rd'], post_r(slot['rd']), slot['imm']))
            elif t in ('dp16', 'chg') and post_r(slot['rd']) == pre_r(slot['rd']) and slot.get('nonvacuous', True):
                b.violate('it.effect', t, 'passed_condition_no_effect', 'slot %d (%s) left r%d unchanged' % (i, slot.get('name', t), slot['rd']))
            elif t == 'str' and M.peek(arm, slot['addr'], 4) != pre_r(slot['rt']).to_bytes(4, meta.get('bo', 'little')):
                b.violate('it.effect', t, 'passed_condition_no_effect', 'slot %d: store did not land' % i)
            elif t == 'ldr' and post_r(slot['rd']) != int.from_bytes(M.peek(arm, slot['addr'], 4), meta.get('bo', 'little')):
                b.violate('it.effect', t, 'passed_condition_no_effect', 'slot %d: load did not land' % i)
            if t in ('mov', 'dp16', 'chg', 'str', 'ldr', 'nop', 'b') and slot['t'] != 'any' and not flags_same:
                b.violate('it.flags', slot.get('name', t), 'flags_set_inside_it_block', 'slot %d (%s, word %#x) changed NZCV %x -> %x inside the IT block' % (
                    i, slot.get('name', t), slot['w'], nzcv, post_cpsr >> 28))
            if t == 'cmp':
                rn = (slot['w'] >> 8) & 7
                want = sub_flags(pre_r(rn), slot['w'] & 0xFF)
                if (post_cpsr >> 28) != want:
                    b.violate('it.effect', 'cmp', 'cmp_flags', 'CMP in slot %d gave NZCV %x, expected %x' % (i, post_cpsr >> 28, want))
            if t == 'b':
                if postR['PC'] != slot['target']:
                    b.violate('it.effect', slot.get('name', 'b'), 'passed_condition_no_effect', 'branch (%s) in the last slot not taken: PC %#x, target %#x' % (slot.get('form'), postR['PC'], slot['target']))
                elif slot.get('form') in ('bl', 'blx', 'blx_arm') and post_r(14) != ((pc + size_of(slot['w'], True)) | 1):
                    b.violate('it.effect', slot.get('name', 'b'), 'link_register', '%s: LR %#x, expected %#x' % (slot.get('form'), post_r(14), (pc + size_of(slot['w'], True)) | 1))
        elif pc == meta.get('epi_addr') and not entered and (post_cpsr >> 30) & 1:
            b.violate('it.flags', 'mov_imm8', 'flags_not_set_outside_it_block', 'MOVS #imm (word %#x) executed after the block left Z set: the same halfword was executed inside the block before' % arm.opcode)
        elif pre_it != 0 and not entered:
            b.violate('it.state', 'after_block', 'itstate_not_retired', 'instruction at %#x after the block runs with ITSTATE %#x' % (pc, pre_it))
        # view for the transparency comparison (ticks that completed in the main mode, special slot excluded)
        if not entered and (post_cpsr & 0x1F) == self.mode:
            sp_addr = meta['slot_addrs'][meta['special']] if meta['special'] is not None and meta['slots'][meta['special']]['t'] in ('svc', 'udf') else None
            if pc != sp_addr:
                r = arm.registers
                self.views.append((pc, tuple(r.get_rmode(i, self.mode) for i in range(15)), post_cpsr, r.pc_store_value(),
                                   M.digest_of(M.peek(arm, P.DBASE, 0x100) + M.peek(arm, DENY, 0x20))))

    granted = False
    last_mem = None


def IT_of(cpsr):
    return ((cpsr >> 8) & 0xFC) | ((cpsr >> 25) & 3)


def _phys(n, mode):
    from sim.models.banking import phys
    return phys(n, mode)


def run_one(case, ideal):
    meta = case['meta']
    c = dict(case)
    core = dict(case['cores'][0])
    if ideal:
        # the ideal run: no asynchronous events, SVC/UDF replaced by NOP, the denied region open from the start
        c['events'] = []
        devs = [dict(d) for d in core['devices']]
        code = bytearray(bytes.fromhex(devs[1]['data']['0']))
        if meta['special'] is not None and meta['slots'][meta['special']]['t'] in ('svc', 'udf'):
            off = meta['slot_addrs'][meta['special']] - G.CODE
            code[off:off + 2] = emit([T.NOP], True)
        for j_, s_ in enumerate(meta['slots']):
            if s_.get('name') == 'wfe':
                # (a wait has no architectural effect on the program: the ideal run does not wait)
                off = meta['slot_addrs'][j_] - G.CODE
                nop = emit([T.NOP if s_['w'] <= 0xFFFF else T.NOP_W], True)
                code[off:off + len(nop)] = nop
        devs[1] = dict(devs[1], data={'0': bytes(code).hex()})
        core['devices'] = devs
        regs = dict(core['regs'])
        sysr = dict(regs['sys'])
        sysr['drsrs'] = list(sysr['drsrs'])
        sysr['drsrs'][5] = 0
        regs['sys'] = sysr
        core['regs'] = regs
    c['cores'] = [core]
    b = Board(c, [])
    mon = EntryMonitor(b, 0, report=True, oracle='it.entry_model')
    rc = ReturnChecker(mon, meta)
    obs = ITObserver(meta, mon, ideal)
    arm = b.cores[0].arm
    intc = M.device_at(arm, G.INTC)

    def grant():
        arm.registers.drsrs[5].value = 0
        obs.granted = True
        b.count('fault.mpu-grant')

    def patch():
        # the UND handler asks for the faulting 16-bit instruction to be replaced by a NOP
        lr = arm.registers.get_rmode(14, 0x1b)
        M.poke(arm, (lr - 2) & 0xFFFFFFFF, emit([T.NOP], True))
        obs.patched.add((lr - 2) & 0xFFFFFFFF)
        b.count('fault.code-patch')
    intc.on_grant, intc.on_patch = grant, patch
    obs.last_mem = M.digest_of(M.peek(arm, P.DBASE, 0x100) + M.peek(arm, DENY, 0x20))
    b.observers = [mon, rc, obs, RangeMonitor(report=False)]
    b.run()
    return b, obs


def run(case):
    if case['scenario'] == 'failsweep':
        return run_failsweep(case)
    if case['scenario'] == 'trapsweep':
        return run_trapsweep(case)
    if case['scenario'] == 'hostret':
        return run_hostret(case)
    p0 = M.env.print_count[0]
    meta = case['meta']
    bB, oB = run_one(case, False)
    b = bB
    if not b.violations:
        bA, oA = run_one(case, True)
        b.violations = bA.violations + b.violations
        if not bA.cores[0].finished:
            b.violate('harness', 'it_block', 'ideal_run_did_not_finish', 'ideal run stuck')
        elif not b.violations:
            if not bB.cores[0].finished:
                b.violate('it.liveness', 'kind=%s' % meta['kind'], 'not_finished_within_bound', 'block with %s at position %s did not finish within %d ticks (te=%d)' % (
                    meta['kind'], meta['pos'], bB.tick, meta['te']))
            elif oA.views != oB.views:
                n = min(len(oA.views), len(oB.views))
                i = next((j for j in range(n) if oA.views[j] != oB.views[j]), n)
                a = oA.views[i] if i < len(oA.views) else None
                bb = oB.views[i] if i < len(oB.views) else None
                what = 'length %d vs %d' % (len(oA.views), len(oB.views))
                if a and bb:
                    d = [nme for nme, x, y in zip(('pc', 'regs', 'cpsr', 'next_pc', 'memory'), a, bb) if x != y]
                    what = '%s differ at %#x (cpsr %#x vs %#x)' % (d, a[0], a[2], bb[2])
                b.violate('it.transparency', 'kind=%s' % meta['kind'], 'differs_from_ideal_run', 'IT %x,%x NZCV %x kind %s pos %s te %d returns %s: %s' % (
                    meta['firstcond'], meta['mask'], meta['nzcv'], meta['kind'], meta['pos'], meta['te'], meta['returns'].get({'udf': 'und'}.get(meta['kind'], meta['kind']), '-'), what))
    mixed = (True in oB.passed and False in oB.passed)
    key = 'it|%x|%x|%x|%s|%s|%d' % (meta['firstcond'], meta['mask'], meta['nzcv'], meta['pos'], meta['kind'], meta['te'])
    b.cover.add(key if (mixed or oB.taken_in_block) else '~' + key)
    b.count('prints', M.env.print_count[0] - p0)
    if oB.taken_in_block:
        b.count('probe.exception-inside-block')
    if mixed:
        b.count('probe.mixed-pass-fail')
    return {'violations': b.violations, 'cover': b.cover, 'stats': b.stats, 'ticks': b.tick, 'digest': b.digest(), 'interesting': bool(b.violations)}


def sample(case, res):
    if case['scenario'] == 'hostret':
        return {'scenario': 'hostret', 'firstcond': case['f'], 'mask': case['mask'], 'nzcv': case['nzcv'], 'svc_slot': case['svc_slot'],
                'words': ['%08x' % w for w in case['cores'][0]['words'][:8]], 'violations': res['violations'][:2]}
    if case['scenario'] == 'trapsweep':
        return {'scenario': 'trapsweep', 'nzcv': case['nzcv'], 'words': ['%08x' % w for w in case['cores'][0]['words'][:8]], 'violations': res['violations'][:2]}
    if case['scenario'] == 'failsweep':
        return {'scenario': 'failsweep', 'cond': case['cond'], 'nzcv': case['nzcv'], 'mask': case['mask'], 'n_words': len(case['cores'][0]['words']),
                'words': ['%08x' % w for w in case['cores'][0]['words'][:8]], 'violations': res['violations'][:2]}
    m = case['meta']
    return {'scenario': 'it_block', 'firstcond': m['firstcond'], 'mask': m['mask'], 'nzcv': m['nzcv'], 'kind': m['kind'], 'pos': m['pos'], 'mode': m['mode'], 'te': m['te'],
            'returns': m['returns'], 'slots': [{k: (hex(v) if k == 'w' else v) for k, v in s.items()} for s in m['slots']], 'events': case['events'],
            'code': case['cores'][0]['devices'][1]['data']['0'], 'violations': res['violations'][:2]}


def shrink(case):
    if case['scenario'] == 'hostret':
        core = case['cores'][0]
        if len(core['regs'].get('R') or {}) > 0:
            yield dict(case, cores=[dict(core, regs=dict(core['regs'], R={}))])
        return
    if case['scenario'] == 'trapsweep':
        # keep only the violating tick: its word and the regime installed before it
        res = run(case)
        if res['violations']:
            t = res['violations'][0].get('tick', 0)
            core = case['cores'][0]
            if 0 < t < len(core['words']):
                ev = [e for e in case['events'] if e['tick'] == t]
                if ev:
                    yield dict(case, cores=[dict(core, regs=ev[0]['regs'], words=[core['words'][t]])], events=[], max_ticks=3)
        return
    if case['scenario'] == 'failsweep':
        words = case['cores'][0]['words']
        res = run(case)
        if res['violations']:
            t = res['violations'][0].get('tick', 0)
            b_ = None
            from sim.stream import StreamBoard
            c = dict(case, max_ticks=t)
            b_ = StreamBoard(c, [])
            b_.run()
            if b_.tick == t and not b_.cores[0].dead and t < len(words):
                spec = M.snapshot_core_spec(b_.cores[0].arm, case['cores'][0])
                spec.update(words=[words[t]], force=case['cores'][0]['force'], no_poke=[])
                yield dict(case, cores=[spec], max_ticks=3)
        return
    ev = case['events']
    for i in range(len(ev)):
        yield dict(case, events=ev[:i] + ev[i + 1:])
