"""C19 — privilege confinement.

Scenario 'user_adversary': the program runs in User mode (Secure / Non-secure, MPU off or on with privileged-only regions over
the handler stacks, the vectors and a "kernel" data page).  Its text is a seeded mix of privileged-operation encodings with
random fields, corrupted words and ordinary vocabulary; IRQ/FIQ/regime changes arrive at seeded ticks.  Whenever an exception
leaves User mode the board (playing the OS) returns to User mode at the next tick, so almost every tick starts in User mode.
Oracle M-user on every tick whose pre-state is User mode: the post-state is (i) User mode with A/I/F/M, every other mode's
banked registers and SPSRs, ELR_hyp, every system/protection/translation register and every byte of a privileged-only
region unchanged, or (ii) an exception entry dispatched by the emulator (validated by the C11 entry model) whose SPSR
records User mode.

Scenario 'unpriv_ldst': LDRT/STRT/LDRBT/STRBT/LDRHT/STRHT/LDRSBT/LDRSHT executed in privileged modes against MPU region sets, or
(VMSA) against small pages and a section with every AP value under a client or manager domain: must abort exactly when the
permission model denies a *User* access; the plain LDR/STR twin at the same address is the control."""
from sim import gen as G, machine as M
from sim.asm import A, T
from sim.entrymon import EntryMonitor
from sim.models import mpu as MPU
from sim.monitors import RangeMonitor
from sim.stream import StreamBoard

PROPERTY = 'C19'
LEVEL = 'exploration'
BUDGET_S = {'quick': 120, 'thorough': 1800}
RULE = ("user_adversary runs: seeded User-mode instruction streams (privileged-operation encodings with random fields, bit-flipped and random "
        "words, vocabulary; both ISAs; IT positions) under seeded configurations, security state and MPU region sets, with IRQ/FIQ and forced "
        "returns (VMSA configurations also with the MMU on and privileged-only pages over the handler stacks and the translation tables); unpriv_ldst runs: "
        "unprivileged load/store variants in privileged modes vs the MPU model, or vs VMSA page/section AP and domain, with ispriv=False. distinct_nontrivial "
        "= distinct (opcode class or decoder outcome, outcome in {no-op, user-visible change, exception kind, not-implemented}) pairs executed "
        "from User mode, plus distinct (instruction, AP, direction, outcome) tuples of unpriv_ldst.")
ASSUMPTIONS = [
    "user-visible state = R0-R12/SP/LR of the User bank, PC, CPSR bits other than A/I/F/M, the event register and wait flags, and memory outside privileged-only regions",
    "an exception entry is recognised by the emulator dispatching one of its take_*_exception routines in that tick (intercepted on the instance)",
    "J is cleared by the supervisor if an UNPREDICTABLE instruction sets it (no Jazelle/ThumbEE in these configurations)",
]

KDATA = G.DATA + 0x800        # "kernel" data: privileged-only when the MPU is on
UT_TABLES = 0x50000           # translation tables of the VMSA user_adversary runs


def plan(tier, seed):
    # user-sweep: every 16-bit Thumb word, and the systematic 32-bit Thumb / ARM sweeps of C18, executed from User mode under the confinement monitor
    sw = lambda n16, rt, ra: ([{'k': 'user-sweep', 'sub': 'sweep16', 'slice': i, 'of': 64, 'ctx': c % 3} for c in range(n16) for i in range(64)] +
                              [{'k': 'user-sweep', 'sub': 'sweepT32', 'slice': i, 'rep': rt} for i in range(0, 384, 8)] +
                              [{'k': 'user-sweep', 'sub': 'sweepA32', 'slice': i, 'rep': ra} for i in range(0, 8192, 64)])
    if tier == 'quick':
        return [{'k': 'user'}] * 9000 + [{'k': 'unpriv'}] * 3000 + sw(1, 32, 4)
    return [{'k': 'user'}] * 300000 + [{'k': 'unpriv'}] * 100000 + sw(6, 512, 64)


# ------------------------------------------------------------------ generation

def priv_word(rng, thumb):
    """an encoding of a privileged / state-changing operation with seeded fields"""
    r = lambda: rng.randrange(0, 15)
    c = 0xE if rng.random() < 0.8 else rng.randrange(15)
    if not thumb:
        tab = [
            lambda: A.msr_reg(r(), rng.getrandbits(4), rng.getrandbits(1), cond=c),
            lambda: A.msr_imm(rng.getrandbits(8), rng.getrandbits(4), rng.getrandbits(1), rot=rng.getrandbits(4), cond=c),
            lambda: A.cps(rng.randrange(4), rng.getrandbits(3), rng.choice([None, rng.choice([0x10, 0x11, 0x12, 0x13, 0x16, 0x17, 0x1a, 0x1b, 0x1f, rng.getrandbits(5)])])),
            lambda: A.srs(rng.choice([0x11, 0x12, 0x13, 0x16, 0x17, 0x1a, 0x1b, 0x1f, 0x10, rng.getrandbits(5)]), rng.getrandbits(1), rng.getrandbits(1), rng.getrandbits(1)),
            lambda: A.rfe(r(), rng.getrandbits(1), rng.getrandbits(1), rng.getrandbits(1)),
            lambda: A.ldstm(1, r(), rng.getrandbits(16) | 0x8000, rng.getrandbits(1), rng.getrandbits(1), rng.getrandbits(1), 1, cond=c),     # LDM ..^ with PC
            lambda: A.ldstm(1, r(), rng.getrandbits(15), rng.getrandbits(1), rng.getrandbits(1), 0, 1, cond=c),                                  # LDM ..^ user regs
            lambda: A.ldstm(0, r(), rng.getrandbits(16), rng.getrandbits(1), rng.getrandbits(1), 0, 1, cond=c),                                  # STM ..^
            lambda: A.subs_pc_lr(rng.getrandbits(8), cond=c), lambda: A.movs_pc_lr(cond=c), lambda: A.eret(cond=c),
            lambda: A.dp_reg(rng.choice(['add', 'sub', 'mov', 'orr', 'and', 'eor', 'rsb', 'adc', 'sbc', 'bic', 'mvn', 'rsc']), 15, r(), r(), s=1, cond=c),   # <op>S PC,..
            lambda: A.dp_imm(rng.choice(['add', 'sub', 'mov', 'orr']), 15, r(), rng.getrandbits(8), s=1, cond=c),
            lambda: A.smc(rng.getrandbits(4), cond=c), lambda: A.svc(rng.getrandbits(24), cond=c),
            lambda: A.mcr(15, rng.getrandbits(3), r(), rng.getrandbits(4), rng.getrandbits(4), rng.getrandbits(3), cond=c),
            lambda: A.mrc(15, rng.getrandbits(3), r(), rng.getrandbits(4), rng.getrandbits(4), rng.getrandbits(3), cond=c),
            lambda: A.mcr(rng.choice([14, 10, 11, 0, 7]), rng.getrandbits(3), r(), rng.getrandbits(4), rng.getrandbits(4), rng.getrandbits(3), cond=c),
            lambda: A.setend(rng.getrandbits(1)), lambda: 0xE12FFF20 | r(),          # BXJ
            lambda: A.hint(rng.choice([2, 3])), lambda: A.mrs(r(), rng.getrandbits(1), cond=c),
            lambda: A.ldst(rng.getrandbits(1), r(), r(), rng.getrandbits(6), rng.getrandbits(1), rng.getrandbits(1), rng.getrandbits(1), rng.getrandbits(1), cond=c),
            lambda: A.ldrt(r(), r(), rng.getrandbits(5), rng.getrandbits(1), cond=c), lambda: A.strt(r(), r(), rng.getrandbits(5), rng.getrandbits(1), cond=c),
            lambda: A.push(rng.getrandbits(16)), lambda: A.pop(rng.getrandbits(16)),
            lambda: 0xE1000070 | rng.getrandbits(4) | rng.getrandbits(12) << 8 | rng.getrandbits(2) << 21,   # HVC/BKPT/SMC neighbourhood
            lambda: 0xE1000200 | r() << 12 | rng.getrandbits(1) << 22 | rng.getrandbits(4) << 16 | rng.getrandbits(1) << 8 | rng.getrandbits(1) << 21 | r(),  # MRS/MSR banked
        ]
    else:
        tab = [
            lambda: T.msr(r(), rng.getrandbits(4), rng.getrandbits(1)), lambda: T.cps(rng.getrandbits(1), rng.getrandbits(3)),
            lambda: T.cps_w(rng.randrange(4), rng.getrandbits(3), rng.choice([None, rng.choice([0x10, 0x11, 0x12, 0x13, 0x16, 0x17, 0x1a, 0x1b, 0x1f, rng.getrandbits(5)])])),
            lambda: T.srs(rng.choice([0x11, 0x12, 0x13, 0x16, 0x17, 0x1a, 0x1b, 0x1f, 0x10, rng.getrandbits(5)]), rng.getrandbits(1), rng.getrandbits(1)),
            lambda: T.rfe(r(), rng.getrandbits(1), rng.getrandbits(1)), lambda: T.subs_pc_lr(rng.getrandbits(8)), lambda: T.smc(rng.getrandbits(4)),
            lambda: T.svc(rng.getrandbits(8)), lambda: T.mcr(15, rng.getrandbits(3), r(), rng.getrandbits(4), rng.getrandbits(4), rng.getrandbits(3)),
            lambda: T.mrc(15, rng.getrandbits(3), r(), rng.getrandbits(4), rng.getrandbits(4), rng.getrandbits(3)),
            lambda: T.mcr(rng.choice([14, 10, 11, 0, 7]), rng.getrandbits(3), r(), rng.getrandbits(4), rng.getrandbits(4), rng.getrandbits(3)),
            lambda: T.setend(rng.getrandbits(1)), lambda: 0xF3C08F00 | r() << 16, lambda: T.hint(rng.choice([2, 3])), lambda: T.mrs(r(), rng.getrandbits(1)),
            lambda: T.ldst_imm(rng.choice(['str', 'ldr', 'strb', 'ldrb']), rng.randrange(8), rng.randrange(8), rng.getrandbits(5)),
            lambda: T.ldrt(r(), r(), rng.getrandbits(5)), lambda: T.strt(r(), r(), rng.getrandbits(5)), lambda: T.push(rng.getrandbits(8), rng.getrandbits(1)),
            lambda: T.pop(rng.getrandbits(8), rng.getrandbits(1)), lambda: T.ldstm_w(rng.getrandbits(1), r(), rng.getrandbits(16), rng.getrandbits(1), rng.getrandbits(1)),
            lambda: 0xF3E08000 | r() << 8 | rng.getrandbits(1) << 20 | rng.getrandbits(4) << 16 | rng.getrandbits(1) << 4 | 0x20,    # MRS banked
            lambda: 0xF3808020 | r() << 16 | rng.getrandbits(1) << 20 | rng.getrandbits(4) << 8 | rng.getrandbits(1) << 4,          # MSR banked
            lambda: 0xF7E08000 | rng.getrandbits(4) << 16 | rng.getrandbits(12),    # HVC
            lambda: 0xBA80 | rng.getrandbits(6), lambda: 0xBE00 | rng.getrandbits(8),
        ]
    w = rng.choice(tab)()
    if thumb and w <= 0xFFFF:
        w = w << 16 | 0xBF00
    return w


def user_regime(rng, cfg, thumb=None):
    if thumb is None:
        thumb = rng.getrandbits(1)
    it = 0
    if thumb and rng.random() < 0.25:
        it = rng.randrange(1, 256)
    cpsr = G.random_cpsr(rng, cfg, mode='usr', thumb=thumb, it=it, e=None)
    pmsa = cfg['memory_system_architecture'] == 'PMSA'
    mpu_on = pmsa and rng.random() < 0.6
    sct = G.sctlr_value(m=int(mpu_on), a=int(rng.random() < 0.3), v=int(rng.random() < 0.2), u=rng.getrandbits(1), te=rng.getrandbits(1),
                        br=rng.getrandbits(1), nmfi=int(rng.random() < 0.2), tre=1)
    sys = {'sctlr': sct}
    if cfg.get('have_security_ext'):
        sys['scr'] = rng.getrandbits(6) if rng.random() < 0.6 else 0
    if cfg.get('have_virt_ext'):
        sys['hcr'] = rng.getrandbits(32) & (1 << 27 | 1 << 5 | 1 << 4 | 1 << 3 | 1 << 13 | 1 << 14 | 1 << 19) if rng.random() < 0.5 else 0
        sys['hcptr'] = rng.getrandbits(14) if rng.random() < 0.3 else 0
        sys['hstr'] = rng.getrandbits(18) & ~(1 << 4 | 1 << 14) if rng.random() < 0.5 else 0        # CP15 / ThumbEE / Jazelle (BXJ) traps to Hyp mode
    sys['cpacr'] = rng.getrandbits(28) if rng.random() < 0.5 else 0x0FFFFFFF
    sys['nsacr'] = rng.getrandbits(20) if rng.random() < 0.4 else 0x3FFF
    privonly = []
    if pmsa:
        regs = G.random_mpu(rng, cfg['number_of_mpu_regions'])
        regs[0] = (1 | 31 << 1, 0, 3 << 8)
        if mpu_on and len(regs) >= 6:
            n = len(regs)
            regs[n - 1] = (1 | 11 << 1, G.STACKS, 1 << 8)           # handler stacks: privileged only (4 KiB)
            regs[n - 2] = (1 | 9 << 1, KDATA, 1 << 8)               # kernel data: privileged only (1 KiB)
            regs[n - 3] = (1 | 7 << 1, G.LOW, 2 << 8)               # vectors: user read-only (256 B)
            privonly = [[G.STACKS, G.STACKS + 0x1000], [KDATA, KDATA + 0x400]]
        sys.update(G.mpu_sys(regs, nu=rng.getrandbits(1)))
    if not pmsa and rng.random() < 0.5:
        # MMU on (short descriptors, tables written by gen_user): identity pages for the low MiB; the handler stacks and the translation
        # tables themselves are privileged-only, the vectors page is read-only for User code
        mpu_on = True
        sys['sctlr'] = sct | 1
        sys.update({'ttbr0': UT_TABLES, 'ttbr0_64': UT_TABLES, 'ttbr1': 0, 'ttbr1_64': 0, 'ttbcr': 0, 'dacr': 1, 'prrr': 0x000AAAAA, 'nmrr': 0x40E040E0})
        privonly = [[G.STACKS, G.STACKS + 0x1000], [UT_TABLES, UT_TABLES + 0x1000], [UT_TABLES + 0x1000, UT_TABLES + 0x1400]]
    R = G.random_regfile(rng, cfg)
    if not pmsa and mpu_on:
        for nme in rng.sample(['R%dusr' % i for i in range(13)], 2):
            R[nme] = rng.choice([UT_TABLES + 4 * rng.randrange(0, 4), UT_TABLES + 0x1000 + 4 * rng.randrange(0, 256), UT_TABLES + 0x1000 + 4 * 0x30])
    for nme in rng.sample(['R%dusr' % i for i in range(13)] + ['SPusr', 'LRusr'], 5):
        R[nme] = rng.choice([G.STACKS + 0x100 * rng.randrange(1, 9), KDATA + 4 * rng.randrange(0, 64), G.LOW + 4 * rng.randrange(0, 16), G.DATA + 0x400])
    sys['vbar'] = rng.choice([0, G.LOW + 0x200])
    sys['mvbar'] = G.LOW + 0x400
    sys['hvbar'] = G.LOW + 0x800
    return {'cpsr': cpsr, 'sys': sys, 'R': R, 'spsr': G.random_spsrs(rng, cfg), 'elr_hyp': rng.getrandbits(32)}, privonly, mpu_on


def gen_user(rng):
    cfg = G.random_config(rng, allow_lpae=False, archs=(6, 7, 7, 7))
    cfg.update(G.impdef_switches(rng))
    devices = G.std_devices()
    G.set_data(devices[2], 0x3C0, bytes(rng.getrandbits(8) for _ in range(0x80)))
    G.set_data(devices[2], 0x800, bytes(rng.getrandbits(8) for _ in range(0x100)))
    G.set_data(devices[3], 0x100, bytes(rng.getrandbits(8) for _ in range(0x100)))
    regs, privonly, mpu_on = user_regime(rng, cfg)
    if cfg['memory_system_architecture'] == 'VMSA':
        tables = {'kind': 'ram', 'begin': UT_TABLES, 'end': UT_TABLES + 0x2000}
        G.set_data(tables, 0, ((UT_TABLES + 0x1000) | 1).to_bytes(4, 'little'))
        G.set_data(tables, 4 * 0xFFF, (0xFFF00000 | 3 << 10 | 0b10).to_bytes(4, 'little'))
        for i in range(256):
            ap = 1 if (i << 12) in (G.STACKS, UT_TABLES, UT_TABLES + 0x1000) else (2 if (i << 12) == G.LOW else 3)
            G.set_data(tables, 0x1000 + 4 * i, ((i << 12) | (ap >> 2) << 9 | (ap & 3) << 4 | 0b10).to_bytes(4, 'little'))
        devices.append(tables)
    regs['pc'] = G.CODE + 4 * rng.randrange(0, 64)
    nt = rng.choice([60, 120, 200])
    tb = rng.random()
    words = []
    while len(words) < nt:
        k = rng.random()
        if k < 0.06:
            words += G.macro(rng, rng.random() < tb)
            continue
        if k < 0.5:
            w = priv_word(rng, rng.random() < tb)
            if rng.random() < 0.2:
                w ^= 1 << rng.randrange(32)
        elif k < 0.8:
            w = G.stream_word(rng, tb)
        else:
            th = rng.random() < tb
            w = G.vocab_words(rng, th)
            if th and w <= 0xFFFF:
                w = w << 16 | 0xBF00
        words.append(w)
    words = words[:nt]
    events = []
    for _ in range(rng.randrange(0, max(1, nt // 20)) if rng.random() > 0.3 else 0):
        t = rng.randrange(1, nt)
        k = rng.random()
        if k < 0.4:
            events.append({'tick': t, 'core': 0, 'kind': 'irq'})
        elif k < 0.7:
            events.append({'tick': t, 'core': 0, 'kind': 'fiq'})
        else:
            r2, _, _ = user_regime(rng, cfg)
            # regime changes keep the MPU layout (the privileged-only ranges are fixed per run)
            for key in ('drsrs', 'drbars', 'dracrs', 'mpuir', 'ttbr0', 'ttbr0_64', 'ttbr1', 'ttbr1_64', 'ttbcr', 'dacr', 'prrr', 'nmrr'):
                r2['sys'].pop(key, None)
            r2['sys']['sctlr'] = (r2['sys']['sctlr'] & ~1) | int(mpu_on)
            events.append({'tick': t, 'core': 0, 'kind': 'regime', 'regs': r2})
    events.sort(key=lambda e: e['tick'])
    core = {'config': cfg, 'devices': devices, 'regs': regs, 'words': words, 'force': None, 'no_poke': []}
    case = {'scenario': 'user_adversary', 'cores': [core], 'events': events, 'privonly': privonly, 'max_ticks': nt + 4, 'stop_at_done': False}
    if rng.random() < 0.25:
        case['predecessor'] = G.predecessor_for(rng, cfg)          # another processor with other extensions lived in this process before (machine.run_predecessor)
    return case


UNPRIV = ['ldrt', 'strt', 'ldrbt', 'strbt', 'ldrht', 'strht', 'ldrsbt', 'ldrsht']


def unpriv_word(kind, thumb, rt, rn, f=None):
    """(word, address offset from Rn).  f: optional operand choices {'imm', 'u', 'reg', 'rm'}; the ARM encodings are post-indexed (address = Rn,
    the offset only feeds the write-back), the Thumb T1 encodings are offset forms (address = Rn + imm8).  Every base register - SP included,
    where LDRT Rt,[SP],#4 sits one bit away from POP {Rt} - every offset and the register-offset encodings (A2) are used"""
    f = f or {}
    imm, u = f.get('imm', 4), f.get('u', 1)
    if thumb:
        imm &= 0xFF
        base = {'ldrt': 0xF8500E00, 'strt': 0xF8400E00, 'ldrbt': 0xF8100E00, 'strbt': 0xF8000E00, 'ldrht': 0xF8300E00, 'strht': 0xF8200E00,
                'ldrsbt': 0xF9100E00, 'ldrsht': 0xF9300E00}[kind]
        return base | rn << 16 | rt << 12 | imm, imm
    reg, rm = f.get('reg', 0), f.get('rm', 12)
    if kind in ('ldrt', 'strt', 'ldrbt', 'strbt'):
        w = {'ldrt': A.ldrt, 'strt': A.strt, 'ldrbt': A.ldrbt, 'strbt': A.strbt}[kind](rt, rn, imm & 0xFFF, u)
        if reg:
            w = (w & 0xFFFFF000) | 1 << 25 | (f.get('shift', 0) & 31) << 7 | rm            # A2: [Rn], +/-Rm, LSL #shift
        return w, 0
    op = {'strht': (0, 0xB), 'ldrht': (1, 0xB), 'ldrsbt': (1, 0xD), 'ldrsht': (1, 0xF)}[kind]
    w = 0xE0600000 | u << 23 | op[0] << 20 | rn << 16 | rt << 12 | op[1] << 4
    if reg:
        return (w & ~(1 << 22)) | rm, 0                                                      # A2: [Rn], +/-Rm
    return w | (imm & 0xF0) << 4 | (imm & 0xF), 0                                            # A1: post-indexed, imm8


def unpriv_operands(rng):
    """operand choices of one unprivileged load/store test (see unpriv_word)"""
    rn = rng.choice([13, 13, 13, 8, 9, 10, 11, 12, 14])
    rt = rng.randrange(0, 8)
    rm = rng.choice([x for x in (0, 0, 0, 8, 9, 10, 11, 12, 14) if x != rn and x != rt] or [9])
    return {'rt': rt, 'rn': rn, 'f': {'imm': rng.choice([4, 4, 4, 0, 8, 1, 2, 0xFC, rng.getrandbits(8)]), 'u': rng.choice([1, 1, 0]), 'reg': int(rng.random() < 0.25),
                                      'rm': rm, 'shift': rng.choice([0, 0, 2])}}


def gen_unpriv(rng):
    cfg = {'arch_version': 7, 'have_security_ext': rng.random() < 0.5, 'have_virt_ext': False, 'have_lpae': False,
           'memory_system_architecture': 'PMSA', 'number_of_mpu_regions': 12}
    thumb = rng.getrandbits(1)
    mode = rng.choice(['svc', 'irq', 'fiq', 'abt', 'und', 'sys'] + (['mon'] if cfg['have_security_ext'] else []))
    regs = [(0, 0, 0)] * 12
    regs[0] = (1 | 31 << 1, 0, 3 << 8)
    aps = [rng.choice([0, 1, 2, 3, 5, 6]) for _ in range(4)]
    for j, ap in enumerate(aps):          # four 256-byte pages of DATA with different AP
        regs[4 + j] = (1 | 7 << 1 | (rng.getrandbits(8) if rng.random() < 0.3 else 0) << 8, G.DATA + 0x100 * j, ap << 8)
    br = rng.getrandbits(1)
    if rng.random() < 0.2:
        regs[0] = (0, 0, 0)               # no catch-all region: background rule decides (code needs BR=1 to run privileged)
        regs[1] = (1 | 12 << 1, G.CODE, 3 << 8)
        br = 1
    devices = G.std_devices(rec_data=True)
    G.set_data(devices[2], 0, bytes(rng.getrandbits(8) for _ in range(0x400)))
    tests = []
    for _ in range(12):
        kind = rng.choice(UNPRIV)
        page = rng.randrange(0, 5)
        off = 8 * rng.randrange(2, 28)
        mis = rng.choice([0, 0, 0, 1, 2, 3])       # unaligned word/halfword accesses go byte by byte (SCTLR.U=1, A=0): every byte is a User access
        tests.append(dict(unpriv_operands(rng), kind=kind, rn_val=G.DATA + 0x100 * page + off + mis))
    if rng.random() < 0.4:
        # the first 32 bytes of the code page - where every test instruction is placed and fetched, with privileged rights - are privileged-only;
        # unprivileged LOADS aimed at the instruction's own word and at its neighbours: the same address, asked for twice in one step with different rights
        regs[8] = (1 | 4 << 1, G.CODE, rng.choice([1, 1, 5]) << 8)
        for _ in range(6):
            kind = rng.choice([k for k in UNPRIV if k.startswith('ldr')])
            tests.append(dict(unpriv_operands(rng), kind=kind, rn_val=G.CODE + rng.choice([0, 0, 0, 1, 2, 3, 4, 6, 8])))
    sys = {'sctlr': G.sctlr_value(m=1, a=0, u=1, te=thumb, br=br)}
    sys.update(G.mpu_sys(regs))
    cpsr = G.random_cpsr(rng, cfg, mode=mode, thumb=thumb) | 0x1C0
    state = {'cpsr': cpsr, 'pc': G.CODE, 'sys': sys, 'R': G.random_regfile(rng, cfg), 'spsr': G.random_spsrs(rng, cfg)}
    core = {'config': cfg, 'devices': devices, 'regs': state, 'words': [], 'force': None, 'no_poke': []}
    return {'scenario': 'unpriv_ldst', 'cores': [core], 'tests': tests, 'thumb': thumb, 'events': [], 'max_ticks': 10 ** 6, 'stop_at_done': False}


VM_TABLES = 0x50000
VM_WIN = 0x00100000           # VA window of five 4 KiB pages that all map the physical DATA page, each with its own AP
VM_SEC = 0x00200000           # a 1 MiB section mapping physical 0.., with its own AP (DATA is at +0x20000 inside it)


def vmsa_ap_abort(ap, priv, write):
    """VMSAv7 short-descriptor access permissions AP[2:0], SCTLR.AFE=0 (ARM ARM B3.7.1); None = reserved encoding"""
    if ap == 0:
        return True
    if ap == 1:
        return not priv
    if ap == 2:
        return (not priv) and write
    if ap == 3:
        return False
    if ap == 4:
        return None
    if ap == 5:
        return (not priv) or write
    return write                      # 6 (deprecated) and 7: read-only at any privilege


def gen_unpriv_vmsa(rng):
    cfg = {'arch_version': rng.choice([7, 7, 7, 6]), 'have_security_ext': rng.random() < 0.5, 'have_virt_ext': False, 'have_lpae': False, 'memory_system_architecture': 'VMSA'}
    thumb = rng.getrandbits(1) if cfg['arch_version'] == 7 else 0
    mode = rng.choice(['svc', 'irq', 'fiq', 'abt', 'und', 'sys'] + (['mon'] if cfg['have_security_ext'] else []))
    devices = G.std_devices(rec_data=True)
    G.set_data(devices[2], 0, bytes(rng.getrandbits(8) for _ in range(0x400)))
    tables = {'kind': 'ram', 'begin': VM_TABLES, 'end': VM_TABLES + 0x4000}
    dom_code, dom_test = 0, rng.randrange(1, 16)
    dom_kind = rng.choice(['client', 'client', 'client', 'manager'])

    def small(pa, ap):
        return (pa & 0xFFFFF000) | (ap >> 2) << 9 | (ap & 3) << 4 | 0b10

    def section(pa, ap, dom):
        return (pa & 0xFFF00000) | (ap >> 2) << 15 | (ap & 3) << 10 | dom << 5 | 0b10
    l1 = {0: (VM_TABLES + 0x1000) | dom_code << 5 | 1, 1: (VM_TABLES + 0x1400) | dom_test << 5 | 1, 0xFFF: section(0xFFF00000, 3, dom_code)}
    sec_ap = rng.choice([0, 1, 2, 3, 5, 6, 7])
    l1[2] = section(0, sec_ap, dom_test)
    # a supersection (VA 0x01000000, 16 MiB) whose physical address has non-zero bits 39:36: those descriptor bits (8:5) are NOT a domain, a
    # supersection always belongs to domain 0 (client here); the DACR field they would select as a domain number is manager when possible
    ss_hi = dom_test if dom_kind == 'manager' else rng.randrange(1, 16)
    ss_ap = rng.choice([0, 1, 2, 3, 5, 6, 7])
    for i in range(16, 32):
        l1[i] = ss_hi << 5 | 1 << 18 | (ss_ap >> 2) << 15 | (ss_ap & 3) << 10 | 0b10
    devices.append({'kind': 'ram', 'begin': ss_hi << 36, 'end': (ss_hi << 36) + 0x1000})
    for i, v in l1.items():
        G.set_data(tables, 4 * i, v.to_bytes(4, 'little'))
    for i in range(256):
        G.set_data(tables, 0x1000 + 4 * i, small(i << 12, 3).to_bytes(4, 'little'))          # identity, full access: code, vectors, stacks, tables
    aps = [rng.choice([0, 1, 2, 3, 5, 6, 7]) for _ in range(5)]
    for j, ap in enumerate(aps):
        G.set_data(tables, 0x1400 + 4 * j, small(G.DATA, ap).to_bytes(4, 'little'))
    devices.append(tables)
    tests = []
    for _ in range(12):
        kind = rng.choice(UNPRIV)
        off = 8 * rng.randrange(2, 100)
        mis = rng.choice([0, 0, 0, 1, 2, 3])
        dom = dom_kind
        k_ = rng.random()
        if k_ < 0.2:
            va, ap = VM_SEC + G.DATA + off + mis, sec_ap
        elif k_ < 0.4:
            va, ap, dom = 0x01000000 + off + mis, ss_ap, 'client'
        else:
            j = rng.randrange(5)
            va, ap = VM_WIN + 0x1000 * j + off + mis, aps[j]
        tests.append(dict(unpriv_operands(rng), kind=kind, rn_val=va, ap=ap, dom=dom))
    dacr = 1 << (2 * dom_code) | (1 if dom_kind == 'client' else 3) << (2 * dom_test)
    sys = {'sctlr': G.sctlr_value(m=1, a=0, u=1, te=thumb, tre=1, afe=0) | (rng.getrandbits(1) << 8 if cfg['arch_version'] == 6 else 0),      # ARMv6: the deprecated S bit
           # (SCTLR.S=1, R=0 turns AP=0b000 into privileged read-only; for an UNPRIVILEGED access it stays 'no access', which is all these tests compare)
           'prrr': 0x000AAAAA, 'nmrr': 0x40E040E0, 'ttbr0': VM_TABLES,       # TRE=0 ends in a declared-unimplemented hook
           'ttbr0_64': VM_TABLES, 'ttbr1': 0, 'ttbcr': 0, 'dacr': dacr}       # (the walker reads the 64-bit TTBR0 storage)
    cpsr = G.random_cpsr(rng, cfg, mode=mode, thumb=thumb) | 0x1C0
    R = G.random_regfile(rng, cfg)
    state = {'cpsr': cpsr, 'pc': G.CODE, 'sys': sys, 'R': R, 'spsr': G.random_spsrs(rng, cfg)}
    core = {'config': cfg, 'devices': devices, 'regs': state, 'words': [], 'force': None, 'no_poke': [VM_TABLES]}
    return {'scenario': 'unpriv_ldst', 'cores': [core], 'tests': tests, 'thumb': thumb, 'events': [], 'max_ticks': 10 ** 6, 'stop_at_done': False,
            'vmsa': {'domain': dom_kind}}


def gen_unpriv_lpae(rng):
    """long-descriptor tables: leaf AP[2:1] (pages and a 2 MiB block) combined with the hierarchical APTable bits of the table descriptor above"""
    cfg = {'arch_version': 7, 'have_security_ext': rng.random() < 0.5, 'have_virt_ext': False, 'have_lpae': True, 'memory_system_architecture': 'VMSA'}
    thumb = rng.getrandbits(1)
    mode = rng.choice(['svc', 'irq', 'fiq', 'abt', 'und', 'sys'] + (['mon'] if cfg['have_security_ext'] else []))
    devices = G.std_devices(rec_data=True)
    G.set_data(devices[2], 0, bytes(rng.getrandbits(8) for _ in range(0x400)))
    tables = {'kind': 'ram', 'begin': VM_TABLES, 'end': VM_TABLES + 0x4000}

    def leaf(pa, ap2, page):
        return pa | 1 << 10 | ap2 << 6 | (0b11 if page else 0b01)

    def tbl(addr, apt=0):
        return addr | apt << 61 | 0b11
    apt = rng.choice([0, 0, 1, 2, 3])
    G.set_data(tables, 0, tbl(VM_TABLES + 0x1000).to_bytes(8, 'little'))
    G.set_data(tables, 24, leaf(0xC0000000, 1, False).to_bytes(8, 'little'))
    G.set_data(tables, 0x1000, tbl(VM_TABLES + 0x2000).to_bytes(8, 'little'))
    G.set_data(tables, 0x1008, tbl(VM_TABLES + 0x3000, apt).to_bytes(8, 'little'))
    blk_ap = rng.randrange(4)
    G.set_data(tables, 0x1010, leaf(0, blk_ap, False).to_bytes(8, 'little'))
    for i in range(512):
        G.set_data(tables, 0x2000 + 8 * i, leaf(i << 12, 1, True).to_bytes(8, 'little'))
    aps = [rng.randrange(4) for _ in range(8)]
    for j, ap2 in enumerate(aps):
        G.set_data(tables, 0x3000 + 8 * j, leaf(G.DATA, ap2, True).to_bytes(8, 'little'))
    devices.append(tables)
    tests = []
    for _ in range(12):
        kind = rng.choice(UNPRIV)
        off = 8 * rng.randrange(2, 100)
        mis = rng.choice([0, 0, 0, 1, 2, 3])
        if rng.random() < 0.25:
            va, ap2, at = 0x400000 + G.DATA + off + mis, blk_ap, 0
        else:
            j = rng.randrange(8)
            va, ap2, at = 0x200000 + 0x1000 * j + off + mis, aps[j], apt
        tests.append(dict(unpriv_operands(rng), kind=kind, rn_val=va, ap2=ap2, apt=at, pa=G.DATA + off + mis))
    sys = {'sctlr': G.sctlr_value(m=1, a=0, u=1, te=thumb, tre=1, afe=0), 'ttbcr': 1 << 31 | 1 << 16, 'ttbr0_64': VM_TABLES, 'ttbr1_64': 0,      # T1SZ=1: TTBR0 translates the lower 2 GiB
           'mair0': 0xFFFFFFFF, 'mair1': 0xFFFFFFFF}
    cpsr = G.random_cpsr(rng, cfg, mode=mode, thumb=thumb) | 0x1C0
    state = {'cpsr': cpsr, 'pc': G.CODE, 'sys': sys, 'R': G.random_regfile(rng, cfg), 'spsr': G.random_spsrs(rng, cfg)}
    core = {'config': cfg, 'devices': devices, 'regs': state, 'words': [], 'force': None, 'no_poke': [VM_TABLES]}
    return {'scenario': 'unpriv_ldst', 'cores': [core], 'tests': tests, 'thumb': thumb, 'events': [], 'max_ticks': 10 ** 6, 'stop_at_done': False,
            'lpae': True}


def gen_user_sweep(item, rng, tier):
    from scenarios import c18
    case = gen_user(rng)
    src = c18.gen_case({k: v for k, v in dict(item, k=item['sub']).items() if k != 'sub'}, rng, tier)['cores'][0]
    core = case['cores'][0]
    core['words'] = src['words']
    core['force'] = dict(src['force'])
    if rng.random() < 0.5:
        core['force']['edge_regs'] = rng.randrange(1, 8)
    case['events'] = [e for e in case['events'] if e['kind'] in ('irq', 'fiq')][:3]
    case['max_ticks'] = len(core['words']) + 4
    return case


def gen(item, rng, tier):
    if item['k'] == 'user-sweep':
        return gen_user_sweep(item, rng, tier)
    if item['k'] == 'user':
        return gen_user(rng)
    k = rng.random()
    return gen_unpriv_vmsa(rng) if k < 0.3 else (gen_unpriv_lpae(rng) if k < 0.45 else gen_unpriv(rng))


# ------------------------------------------------------------------ execution

FAULT_REGS = ('sys.dfsr', 'sys.dfar', 'sys.hdfar', 'sys.hpfar', 'sys.hsr', 'sys.ifsr', 'sys.ifar')
USERVIS = set(['R%dusr' % i for i in range(13)] + ['SPusr', 'LRusr', 'PC'])
SKIP_SYS = ('event_register',)


def _sec(case):
    return bool(M.full_config(case['cores'][0].get('config')).get('have_security_ext'))


def priv_snapshot(arm, privonly, sec=False):
    r = arm.registers
    d = {'R.' + k: v for k, v in M.regs_dict(arm).items() if k not in USERVIS}
    for k, v in M.sys_state(arm).items():
        if k not in SKIP_SYS:
            d['sys.' + k] = v
    d['cpsr.AIFM'] = r.cpsr.value & 0x1DF
    # ... and as the ACCESSORS see them: what Rmode[n, mode] returns for every privileged mode (a bank selection that quietly aliases another mode's
    # SP onto the User copy leaves every raw register intact)
    ns = sec and (r.scr.value & 1)
    for mode in ((0x11,) if not (ns and (r.nsacr.value >> 19) & 1) else ()) + (0x12, 0x13, 0x17, 0x1b) + ((0x16,) if sec and not ns else ()):
        for n in ((8, 9, 10, 11, 12, 13, 14) if mode == 0x11 else (13, 14)):
            try:
                d['acc.%d.%x' % (n, mode)] = r.get_rmode(n, mode)
            except Exception:
                pass
    for lo, hi in privonly:
        d['mem.%x' % lo] = M.peek(arm, lo, hi - lo)
    return d


class UserBoard(StreamBoard):
    """plays the OS: whenever the core is not in User mode at the start of a tick, return it to User mode"""

    def step_core(self, ci):
        arm = self.cores[ci].arm
        r = arm.registers
        if r.cpsr.value & 0x1F != 0x10:
            sp = r.get_spsr() if (r.cpsr.value & 0x1F) not in (0x10, 0x1F) else r.cpsr.value
            new = (r.cpsr.value & ~0x0600FDFF) | (sp & 0xF80F0020) | 0x10      # user mode, masks clear, E clear, IT clear
            new &= ~(1 << 24)
            r.cpsr.value = new
            if self.cores[ci].lines['irq'] or self.cores[ci].lines['fiq']:
                self.cores[ci].lines['irq'] = self.cores[ci].lines['fiq'] = False
            self.count('probe.forced-return-to-user')
        return super().step_core(ci)

    def after_poke(self, ci):
        # the reference snapshot is taken after the board has placed this tick's word (which may land in a privileged-only page
        # when the PC has wandered there) and before anything executes
        self.user_pre = priv_snapshot(self.cores[ci].arm, self.case.get('privonly', ()), _sec(self.case))


class UserMonitor:
    def __init__(self, mon):
        self.mon = mon

    def on_tick(self, b, rec):
        if rec['exc']:
            return
        pre_cpsr = rec['pre'][1]
        if pre_cpsr & 0x1F != 0x10:
            return
        arm = b.cores[0].arm
        post_cpsr = rec['post'][1]
        taken = [k for t, k in self.mon.taken if t == rec['tick']]
        opn = type(arm.executed_opcode).__name__ if rec['what'] == 'step' else rec['what']
        if rec['what'] in ('irq', 'fiq'):
            b.cover.add('user|%s|exc:%s' % (rec['what'], rec['what']))
            return
        if taken:
            # (ii) an architectural exception was dispatched by the emulator: the saved PSR must record User mode
            r = arm.registers
            mode = post_cpsr & 0x1F
            b.cover.add('user|%s|exc:%s' % (opn if not rec['nie'] else 'nie', taken[0]))
            if mode == 0x10:
                b.violate('user.confinement', opn, 'exception_stays_in_user', 'entry %s dispatched but mode is still User' % taken)
                return
            w_, thumb_ = b.case['cores'][0]['words'][b.pos[0] - 1], (pre_cpsr >> 5) & 1           # the word placed for this tick
            is_smc = ((w_ & 0xFFF0F000) == 0xF7F08000) if thumb_ else ((w_ & 0x0FF000F0) == 0x01600070 and (w_ >> 28) != 0xF)
            if is_smc and rec['what'] == 'step' and any(k in ('smc', 'hyptrap') for k in taken) and not rec['nie']:
                # SMC is UNDEFINED in User mode: neither the Secure Monitor nor a hypervisor trap (HCR.TSC applies to PL1 only) is the
                # architectural exception for it
                b.violate('user.confinement', opn, 'wrong_exception_for_user_smc', 'User-mode SMC (opcode %#x, cpsr %#x, scr %#x, hcr %#x) dispatched %s instead of Undefined Instruction' % (
                    w_, pre_cpsr, r.scr.value, r.hcr.value, taken))
                return
            lpre = getattr(self.mon, 'last_pre', None)
            if lpre is not None and getattr(self.mon, 'last_post_serial', None) == rec.get('serial') and len(taken) == 1:
                # what the User-mode instruction did BEFORE its exception was raised (a privileged side effect followed by 'Undefined' is still a
                # privileged side effect): every other mode's banked registers, the SPSRs, ELR_hyp and SCR are as they were when the step began
                chg = [M.RNAMES[i] for i, (x, y) in enumerate(zip(rec['pre'][0], lpre[0])) if x != y and M.RNAMES[i] not in USERVIS]
                if rec['pre'][2] != lpre[2]:
                    chg.append('SPSR')
                if rec['pre'][3] != lpre[3]:
                    chg.append('ELR_hyp')
                if rec['pre'][6] != lpre[6]:
                    chg.append('SCR')
                if (rec['pre'][1] ^ lpre[1]) & 0x1DF:
                    chg.append('CPSR.AIFM')
                if chg:
                    b.violate('user.confinement', opn, 'privileged_state_changed_before_exception', 'User-mode %s (opcode %#x, cpsr %#x): %s changed before the %s exception was raised' % (
                        opn, arm.opcode, pre_cpsr, chg, taken[0]))
                    return
            if len(taken) == 1 and not rec['nie']:
                # ... and over the WHOLE step (instruction + entry) the only privileged state that may differ is what the entry itself writes: the masks and
                # mode, the target mode's LR and SPSR (ELR_hyp / HSR for Hyp), the fault-reporting registers, bookkeeping
                post_ = priv_snapshot(arm, b.case.get('privonly', ()), _sec(b.case))
                tm = {0x11: 'fiq', 0x12: 'irq', 0x13: 'svc', 0x16: 'mon', 0x17: 'abt', 0x1a: 'hyp', 0x1b: 'und'}.get(mode, '?')
                ok_keys = set(('cpsr.AIFM', 'R.LR' + tm, 'acc.14.%x' % mode, 'sys.spsr_' + tm, 'sys.elr_hyp', 'sys.hsr', 'sys.hpfar') + FAULT_REGS)
                d_ = [k for k in b.user_pre if b.user_pre[k] != post_.get(k) and k not in ok_keys and not M.is_bookkeeping(r, k[4:] if k.startswith('sys.') else '_R')]
                if d_:
                    b.violate('user.confinement', opn, 'privileged_state_changed_by_excepting_step', 'User-mode %s (opcode %#x, cpsr %#x) took %s, and besides the entry changed: %s' % (
                        opn, arm.opcode, pre_cpsr, taken[0], ', '.join('%s %s -> %s' % (x, _short(b.user_pre[x]), _short(post_.get(x))) for x in d_[:3])))
                    return
            sp = r.get_spsr()
            if sp & 0x1F != 0x10:
                b.violate('user.confinement', opn, 'spsr_not_user', 'after %s entry SPSR.M = %#x (CPSR before %#x)' % (taken[0], sp & 0x1F, pre_cpsr))
            lp = getattr(self.mon, 'last_post', None)
            if lp and lp[0] == rec['tick'] and not rec['nie'] and rec['post'] != lp[1] and len(taken) == 1:
                # "...it has taken an architectural exception to a privileged mode AT THAT EXCEPTION'S VECTOR": the step ends with the entry; whatever
                # the User instruction still does afterwards it does with the privileges of the handler's mode
                regs = [M.RNAMES[i] for i, (x, y) in enumerate(zip(rec['post'][0], lp[1][0])) if x != y]
                b.violate('user.confinement', opn, 'ran_on_after_exception_entry', 'User-mode %s (opcode %#x): after the %s entry the step went on in mode %#x and changed %s' % (
                    opn, arm.opcode, taken[0], mode, regs or 'state'))
            return
        post = priv_snapshot(arm, b.case.get('privonly', ()), _sec(b.case))
        pre = b.user_pre
        diff = [k for k in pre if pre[k] != post.get(k)]
        if rec['nie']:
            # an exception entry that could not be completed (mock hook): the fault-reporting registers it had already
            # written are part of that entry, not a privileged-state leak
            diff = [k for k in diff if k not in FAULT_REGS]
        outcome = 'nie' if rec['nie'] else ('noop' if rec['pre'][0][:15] == rec['post'][0][:15] and (pre_cpsr == post_cpsr) else 'uservisible')
        b.cover.add('user|%s|%s' % (opn if not rec['nie'] else 'nie:' + rec['nie'].split(':')[-1], outcome))
        if diff:
            k = diff[0]
            cls = 'mode_or_mask_changed' if k == 'cpsr.AIFM' else ('priv_memory_written' if k.startswith('mem.') else
                                                                   ('banked_register_changed' if k.startswith(('R.', 'acc.')) else 'sysreg_changed:' + k[4:]))
            if k.startswith('sys.spsr_'):
                cls = 'spsr_changed'
            det = ', '.join('%s %s -> %s' % (x, _short(pre[x]), _short(post.get(x))) for x in diff[:3])
            b.violate('user.confinement', opn, cls, 'User-mode %s (opcode %#x, cpsr %#x, pc %#x) changed privileged state: %s' % (
                opn, arm.opcode, pre_cpsr, rec['pre_pc'], det))


def _short(v):
    if isinstance(v, (bytes, bytearray)):
        return M.digest_of(bytes(v))
    if isinstance(v, int):
        return hex(v)
    return repr(v)[:60]


def run_user(case):
    b = UserBoard(case, [])
    mon = EntryMonitor(b, 0, report=True, oracle='user.entry_model')
    b.observers = [mon, UserMonitor(mon), RangeMonitor(report=False)]
    b.run()
    return b


def run_unpriv(case):
    core = dict(case['cores'][0], words=[])
    c = dict(case, cores=[core])
    b = StreamBoard(c, [])
    arm = b.cores[0].arm
    r = arm.registers
    words = core['words']
    thumb = case['thumb']
    start = M.dump_state(arm)
    regions = MPU.regions_from_arm(arm) if not (case.get('vmsa') or case.get('lpae')) else []

    class Last:
        rec = None

        def on_tick(self, bb, rec):
            self.rec = rec
    last = Last()
    b.observers = list(b.observers or []) + [last]
    mval = r.sctlr.m
    br = r.sctlr.br
    for tst in case['tests']:
        kind = tst['kind']
        for variant in ('unpriv', 'plain'):
            M.load_state(arm, start)
            w, off = unpriv_word(kind, thumb, tst['rt'], tst['rn'], tst.get('f'))
            rn_val = (tst['rn_val'] + 4 - off) & 0xFFFFFFFF if thumb else tst['rn_val']        # Thumb: whatever the offset, the access is at rn_val + 4
            if thumb and G.CODE <= tst['rn_val'] < G.CODE + 0x20:
                rn_val = (tst['rn_val'] - off) & 0xFFFFFFFF                                  # (tests aimed at the code page: exactly at rn_val)
            r.set(tst['rn'], rn_val)
            addr = (rn_val + off) & 0xFFFFFFFF
            write = kind.startswith('str')
            if variant == 'plain':
                # the ordinary privileged access to the same address: LDR/STR Rt,[Rn,#off]
                w = (T.str_w(tst['rt'], tst['rn'], off) if write else T.ldr_w(tst['rt'], tst['rn'], off)) if thumb else A.ldst(0 if write else 1, tst['rt'], tst['rn'], off)
                size = 4
            else:
                size = 4 if kind in ('ldrt', 'strt') else (1 if 'b' in kind[3:] and 'h' not in kind else 2)
            words.append(w)
            pre_mode = r.cpsr.value & 0x1F
            before = (M.peek(arm, tst.get('pa', 0) & ~3, 8), r.get(tst['rt']))
            last.rec = None
            b.advance()
            if b.cores[0].dead:
                return b
            vm = case.get('vmsa')
            if ((r.cpsr.value & 0x1F) == 0x1b and pre_mode != 0x1b) or (pre_mode == 0x1b and r.pc_store_value() in (0x4, 0xFFFF0004, r.vbar.value + 4)):
                # the word was rejected as an Undefined Instruction (the tree does that for some valid register-offset encodings, e.g. STRT A2 with
                # Rm != r0): no access was made, so nothing was checked with the wrong permissions - not C19's subject, as long as nothing moved
                b.count('probe.unpriv-rejected-as-undefined')
                if (M.peek(arm, tst.get('pa', 0) & ~3, 8), r.get_rmode(tst['rt'], pre_mode)) != before:
                    b.violate('unpriv.mpu_model', kind, 'data_transferred', '%s %s at %#x ended in an Undefined Instruction entry but memory/Rt changed' % (variant, kind, addr))
                    return b
                continue
            if case.get('lpae'):
                # long descriptors: leaf AP[2:1] restricted by the APTable bits of the table descriptor above; a refused access ends in the
                # emulator's declared-unimplemented long-descriptor fault path (NotImplementedError) or in a Data Abort — either way nothing
                # may be transferred
                priv_acc = variant == 'plain'
                user_ok = bool(tst['ap2'] & 1) and not (tst['apt'] & 1)
                write_ok = not (tst['ap2'] & 2) and not (tst['apt'] & 2)
                allowed = (priv_acc or user_ok) and (not write or write_ok)
                refused = bool(last.rec and last.rec.get('nie')) or ((r.cpsr.value & 0x1F) == 0x17 and pre_mode != 0x17)
                b.cover.add('unpriv|lpae|%s|%s|ap%d|apt%d|%s|%s' % (kind, variant, tst['ap2'], tst['apt'], 'w' if write else 'r', 'refused' if refused else 'ok'))
                b.count('fault.mpu-deny' if not allowed else 'probe.mpu-allow')
                if allowed == refused:
                    b.violate('unpriv.mpu_model', kind if variant == 'unpriv' else 'plain:' + kind, 'missing_abort' if not allowed else 'spurious_abort',
                              '%s %s at %#x in mode %#x (long descriptors, leaf AP[2:1]=%d, APTable=%d): model says %s, access %s' % (
                                  variant, kind, addr, pre_mode, tst['ap2'], tst['apt'], 'allowed' if allowed else 'refused', 'refused' if refused else 'performed'))
                    return b
                if refused:
                    now = (M.peek(arm, tst['pa'] & ~3, 8), r.get(tst['rt']))
                    if now != before:
                        b.violate('unpriv.mpu_model', kind, 'data_transferred', '%s %s at %#x was refused but memory/Rt changed: %r -> %r' % (variant, kind, addr, before, now))
                        return b
                continue
            if vm:
                # translation tables: every byte of the access lies in one page; the domain is client (AP checked) or manager (never checked)
                dom_ = tst.get('dom', vm['domain'])
                a_ = None if dom_ == 'manager' else vmsa_ap_abort(tst['ap'], variant == 'plain', write)
                dec, reg = ('ok' if dom_ == 'manager' else ('unpredictable' if a_ is None else ('perm' if a_ else 'ok'))), None
                fault_addr = addr
            else:
                dec, reg = MPU.decide(regions, mval, br, addr, variant == 'plain', write)
                fault_addr = addr
                if addr % size:
                    # an unaligned access is performed byte by byte: the first byte the model denies faults
                    for bofs in range(size):
                        dec, reg = MPU.decide(regions, mval, br, addr + bofs, variant == 'plain', write)
                        fault_addr = addr + bofs
                        if dec != 'ok':
                            break
            aborted = (r.cpsr.value & 0x1F) == 0x17 and pre_mode != 0x17 or (pre_mode == 0x17 and r.pc_store_value() in (0x10, 0xFFFF0010, r.vbar.value + 16))
            ap = (regions[reg][2] >> 8) & 7 if reg is not None else (tst['ap'] if vm else -1)
            b.cover.add('unpriv|%s|%s|%s|ap%d|%s|%s' % ('vmsa-' + tst.get('dom', vm['domain']) + ('-ss' if (tst['rn_val'] >> 24) == 1 else '') if vm else 'pmsa', kind, variant, ap, 'w' if write else 'r', 'abort' if aborted else 'ok'))
            b.count('fault.mpu-deny' if dec != 'ok' else 'probe.mpu-allow')
            if dec == 'unpredictable':
                continue
            if (dec != 'ok') != aborted:
                b.violate('unpriv.mpu_model', kind if variant == 'unpriv' else 'plain:' + kind, 'missing_abort' if dec != 'ok' else 'spurious_abort',
                          '%s %s at %#x in mode %#x (%s access): model says %s (region %s AP %d), abort taken: %s' % (
                              variant, kind, addr, pre_mode, 'User-permission' if variant == 'unpriv' else 'privileged', dec, reg, ap, aborted))
                return b
            if aborted and r.dfar != fault_addr:
                b.violate('unpriv.mpu_model', kind, 'dfar', 'DFAR %#x, expected %#x' % (r.dfar, fault_addr))
                return b
    return b


def run(case):
    p0 = M.env.print_count[0]
    b = run_user(case) if case['scenario'] == 'user_adversary' else run_unpriv(case)
    b.count('prints', M.env.print_count[0] - p0)
    return {'violations': b.violations, 'cover': b.cover, 'stats': b.stats, 'ticks': b.tick, 'digest': b.digest(), 'interesting': bool(b.violations)}


def sample(case, res):
    c = case['cores'][0]
    if case['scenario'] == 'unpriv_ldst':
        return {'scenario': 'unpriv_ldst', 'config': c['config'], 'mode_cpsr': hex(c['regs']['cpsr']), 'tests': case['tests'][:4],
                'dracrs': [hex(x) for x in c['regs']['sys'].get('dracrs', [])[:8]], 'vmsa': case.get('vmsa'), 'violations': res['violations'][:2]}
    return {'scenario': 'user_adversary', 'config': c['config'], 'start_cpsr': hex(c['regs']['cpsr']), 'privonly': [[hex(a), hex(b)] for a, b in case['privonly']],
            'words': ['%08x' % w for w in c['words'][:12]], 'events': [{k: v for k, v in e.items() if k != 'regs'} for e in case['events'][:6]],
            'ticks': res['ticks'], 'violations': res['violations'][:2]}


def _with_words(case, words, events=None):
    c = dict(case)
    c['cores'] = [dict(case['cores'][0], words=words)]
    if events is not None:
        c['events'] = events
    c['max_ticks'] = len(words) + 4
    return c


def snapshot_case(case, tick):
    c = dict(case, max_ticks=tick)
    b = UserBoard(c, [])
    b.run()
    if b.tick != tick or b.cores[0].dead:
        return None
    old = case['cores'][0]
    spec = M.snapshot_core_spec(b.cores[0].arm, old)
    spec.update(words=old['words'][b.pos[0]:], force=None, no_poke=[])
    n = dict(case, cores=[spec], events=[dict(e, tick=e['tick'] - tick) for e in case['events'] if e['tick'] >= tick])
    n['max_ticks'] = len(spec['words']) + 4
    return n


def shrink(case):
    if case['scenario'] == 'unpriv_ldst':
        t = case['tests']
        for i in range(len(t)):
            if len(t) > 1:
                yield dict(case, tests=t[:i] + t[i + 1:])
        return
    words = case['cores'][0]['words']
    n = len(words)
    if n > 1:
        res = run(case)
        if res['violations']:
            t = res['violations'][0]['tick']
            for back in (0, 1):
                if t - back > 0:
                    c = snapshot_case(case, t - back)
                    if c is not None:
                        yield c
            if t + 1 < n:
                yield _with_words(case, words[:t + 1])
    for i in range(len(case['events'])):
        yield _with_words(case, words, case['events'][:i] + case['events'][i + 1:])
