"""C11 — exception entry.

Scenario 'entry' (grid): for every exception kind the bits its routing reads are enumerated exhaustively (source mode,
SCR/HCR routing bits, SCTLR.{V,VE,TE,EE}, T, extension configuration); everything else (flags, IT, masks, E, registers,
vector bases, PC incl. 0 / 0xFFFFFFFC, filler instructions before the fault) is seeded per cell.  The fault is injected
into a running stream program: IRQ/FIQ/reset by the environment, UND/SVC/SMC/Data Abort/Hyp trap by an instruction
executed through the real emulate_cycle().  With probability 1/2 a second and third fault hit the handler's first
instructions (nesting).  Oracle: models/exc_entry via sim/entrymon (field-by-field, plus 'nothing else changed').

Scenario 'nested-random': C18-style corrupted streams in random configurations; every entry that happens is checked."""
import itertools

from sim import gen as G, machine as M
from sim.asm import A, T
from sim.entrymon import EntryMonitor
from sim.monitors import RangeMonitor
from sim.stream import StreamBoard
from scenarios import c18

PROPERTY = 'C11'
LEVEL = 'fault_enumeration'
BUDGET_S = {'quick': 120, 'thorough': 1800}
EXHAUSTIVE = {'quick': False, 'thorough': False}
RULE = ("Grid cells = kind x source mode x routing bits (SCR.NS/IRQ/FIQ/EA/AW/FW, HCR.TGE/IMO/FMO/TSC/TWI, SCTLR.V/VE/TE/EE, T, "
        "alignment-vs-permission for aborts) x extension configuration, enumerated completely in both tiers (thorough repeats each cell "
        "with more seeds); other state seeded per cell; half of the cells add 1-2 nested faults in the handler. Plus seeded corrupted-stream "
        "runs in random configurations where every entry taken is checked. distinct_nontrivial = distinct (kind, source mode, target mode, "
        "route, T, extensions) tuples actually entered.")
ASSUMPTIONS = [
    "HSR contents, LR/SPSR after reset and other UNKNOWN values are not compared",
    "vector base registers are generated 32-byte aligned (architecturally valid), so base+offset cannot wrap",
    "prefetch aborts are out of scope: armulator reports a denied fetch as a Data Abort and the property does not list Prefetch Abort",
    "reset: T/E/vector are checked against the SCTLR value present after take_reset() (armulator does not restore SCTLR on reset)",
    "external/asynchronous aborts and debug exceptions are mocked as absent in armulator and are not modelled",
]

TOP = 0xFFFFF000
EXTS = [(False, False), (True, False), (True, True)]          # (security, virtualization)
MODES_ALL = ['usr', 'fiq', 'irq', 'svc', 'mon', 'abt', 'hyp', 'und', 'sys']


def _grid():
    cells = []
    for sec, virt in EXTS:
        modes = [m for m in MODES_ALL if (m != 'mon' or sec) and (m != 'hyp' or virt)]
        scr_bits = lambda names: [dict(zip(names, v)) for v in itertools.product((0, 1), repeat=len(names))] if sec else [dict.fromkeys(names, 0)]
        hcr_bits = lambda names: [dict(zip(names, v)) for v in itertools.product((0, 1), repeat=len(names))] if virt else [dict.fromkeys(names, 0)]
        for mode in modes:
            for t in (0, 1):
                for v, te, ee in itertools.product((0, 1), repeat=3):
                    base = {'sec': sec, 'virt': virt, 'mode': mode, 't': t, 'V': v, 'TE': te, 'EE': ee}
                    for ve in (0, 1):
                        for s in scr_bits(['NS', 'IRQ', 'AW']):
                            for h in hcr_bits(['IMO']):
                                cells.append(dict(base, kind='irq', VE=ve, **s, **h))
                        for s in scr_bits(['NS', 'FIQ', 'FW', 'AW']):
                            for h in hcr_bits(['FMO']):
                                cells.append(dict(base, kind='fiq', VE=ve, **s, **h))
                    for s in scr_bits(['NS', 'EA', 'AW']):
                        for h in hcr_bits(['TGE']):
                            for al in (0, 1):
                                cells.append(dict(base, kind='dabt', align=al, **s, **h))
                    for s in scr_bits(['NS']):
                        for h in hcr_bits(['TGE']):
                            cells.append(dict(base, kind='svc', **s, **h))
                            cells.append(dict(base, kind='und', **s, **h))
                    if sec:
                        for s in scr_bits(['NS', 'SCD']):
                            for h in hcr_bits(['TSC']):
                                cells.append(dict(base, kind='smc', **s, **h))
                    if virt:
                        for s in scr_bits(['NS']):
                            for h in hcr_bits(['TWI', 'TWE']):
                                for w in ('wfi', 'wfe'):
                                    cells.append(dict(base, kind='hyptrap', insn=w, **s, **h))
                            for tj in (0, 1):
                                cells.append(dict(base, kind='hyptrap', insn='bxj', TJDBX=tj, **s))      # BXJ trapped by HSTR.TJDBX
                                cells.append(dict(base, kind='hyptrap', insn='cp15', TN=tj, **s))        # MCR/MRC/MCRR/MRRC p15 trapped by HSTR.T<CRn>
                                cells.append(dict(base, kind='hyptrap', insn='tee', TTEE=tj, **s))       # MCR/MRC p14,6 (TEECR/TEEHBR) trapped by HSTR.TTEE
                    cells.append(dict(base, kind='reset'))
    # state constraints of the architecture
    out = []
    for c in cells:
        if c['mode'] == 'hyp' and not c.get('NS', 0):
            continue                      # Hyp mode exists only in Non-secure state
        out.append(c)
    return out


_GRID = None


def grid():
    global _GRID
    if _GRID is None:
        _GRID = _grid()
    return _GRID


def plan(tier, seed):
    g = grid()
    if tier == 'quick':
        return [{'k': 'cell', 'cell': i, 'rep': 0} for i in range(len(g))] + [{'k': 's2', 'cell': i, 'rep': 0} for i in range(len(s2_grid()))] + [{'k': 'nested-random'}] * 3000
    items = []
    for rep in range(8):
        items += [{'k': 'cell', 'cell': i, 'rep': rep} for i in range(len(g))]
        items += [{'k': 's2', 'cell': i, 'rep': rep} for i in range(len(s2_grid()))]
    return items + [{'k': 'nested-random'}] * 100000


SCR_BITS = {'NS': 0, 'IRQ': 1, 'FIQ': 2, 'EA': 3, 'FW': 4, 'AW': 5, 'SCD': 7}
HCR_BITS = {'FMO': 3, 'IMO': 4, 'AMO': 5, 'TWI': 13, 'TWE': 14, 'TSC': 19, 'TGE': 27}


def _fault_word(kind, thumb, rng, cell=None):
    """the instruction that raises the synchronous exception 'kind' (ARM word or Thumb hw1:hw2 stream entry)"""
    def th(w):
        return w if w > 0xFFFF else (w << 16 | 0xBF00)
    if kind == 'svc':
        # the immediate is ignored by the processor: also the numbers that debuggers / semihosting layers give a meaning (0x123456, 0xAB, 0)
        if rng.random() < 0.4:
            return th(T.svc(rng.choice([0xAB, 0xAB, 0x00, 0xFF]))) if thumb else A.svc(rng.choice([0x123456, 0x123456, 0xAB, 0, 0xFFFFFF]))
        return th(T.svc(rng.getrandbits(8))) if thumb else A.svc(rng.getrandbits(24))
    if kind == 'und':
        if thumb:
            return th(rng.choice([T.udf(rng.getrandbits(8)), T.udf_w(rng.getrandbits(8))]))
        return A.udf(rng.getrandbits(8))
    if kind == 'smc':
        return T.smc(rng.getrandbits(4)) if thumb else A.smc(rng.getrandbits(4))
    if kind == 'hyptrap':
        if (cell or {}).get('insn') == 'bxj':
            rm = rng.randrange(0, 13)
            return (0xF3C08F00 | rm << 16) if thumb else (0xE12FFF20 | rm)
        if (cell or {}).get('insn') == 'tee':
            return 0xEEC00E10 | rng.getrandbits(1) << 20 | rng.getrandbits(1) << 16 | rng.randrange(0, 13) << 12       # MCR/MRC p14, 6, Rt, c0|c1, c0, 0
        if (cell or {}).get('insn') == 'cp15':
            crn, rt = cell['_crn'], rng.randrange(0, 13)
            if cell['_two']:
                rt2 = (rt + rng.randrange(1, 12)) % 13             # MRRC with Rt == Rt2 is UNPREDICTABLE
                return 0xEC400F00 | rng.getrandbits(1) << 20 | rt2 << 16 | rt << 12 | rng.getrandbits(4) << 4 | crn       # MCRR/MRRC p15, .., c<crn>
            return 0xEE000F10 | rng.getrandbits(3) << 21 | rng.getrandbits(1) << 20 | crn << 16 | rt << 12 | rng.getrandbits(3) << 5 | rng.getrandbits(4)
        n = 3 if (cell or {}).get('insn', 'wfi') == 'wfi' else 2
        return th(T.hint(n)) if thumb else A.hint(n)
    if kind == 'dabt':
        load = rng.getrandbits(1)
        if thumb:
            return th(T.ldst_imm('ldr' if load else 'str', 0, 1, 0))
        return A.ldst(load, 0, 1, 0)
    raise ValueError(kind)


def gen_cell(cell, rng, rep):
    sec, virt = cell['sec'], cell['virt']
    cfg = {'arch_version': 7, 'have_security_ext': sec, 'have_virt_ext': virt, 'have_lpae': False,
           'memory_system_architecture': 'VMSA' if virt else rng.choice(['PMSA', 'PMSA', 'VMSA']), 'number_of_mpu_regions': 12}
    cfg.update(G.impdef_switches(rng))
    if cell.get('VE') and rng.random() < 0.6:
        # the IMPLEMENTATION DEFINED interrupt vectors of the configuration file: any address, address 0 included
        cfg['impdef_irq_vector'] = rng.choice([0, 0, 0x18, 0x40, 0x200, 0xFFFF0018, rng.getrandbits(30) << 2])
        cfg['impdef_fiq_vector'] = rng.choice([0, 0, 0x1C, 0x60, 0x240, 0xFFFF001C, rng.getrandbits(30) << 2])
    pmsa = cfg['memory_system_architecture'] == 'PMSA'
    kind = cell['kind']
    thumb = cell['t']
    devices = G.std_devices()
    devices.append({'kind': 'ram', 'begin': TOP, 'end': 0x100000000})
    scr = 0
    for k, bit in SCR_BITS.items():
        scr |= cell.get(k, rng.getrandbits(1) if sec and k not in ('SCD', 'NS') else 0) << bit
    if cell['mode'] == 'hyp':
        scr |= 1
    if cell.get('SCD') and not (scr & 1) and cell['mode'] != 'mon':
        pass
    hcr = 0
    for k, bit in HCR_BITS.items():
        hcr |= cell.get(k, 0) << bit
    want_align = bool(cell.get('align'))
    if kind == 'dabt' and not pmsa:
        want_align = True          # with the MMU off only alignment faults exist
    sct = G.sctlr_value(m=1 if (pmsa and kind == 'dabt' and not want_align) else 0, a=1 if (kind == 'dabt' and want_align) else rng.getrandbits(1),
                        v=cell['V'], u=1, ve=cell.get('VE', rng.getrandbits(1) if kind not in ('irq', 'fiq') else 0), ee=cell['EE'],
                        te=cell['TE'], nmfi=rng.getrandbits(1), br=1)
    it = 0
    if thumb:
        if kind in ('irq', 'fiq', 'reset') and rng.random() < 0.5:
            it = rng.randrange(1, 256)
        elif kind not in ('irq', 'fiq', 'reset') and rng.random() < 0.4:
            it = 0xE0 | rng.choice([0x8, 0x4, 0xC, 0x2, 0x6, 0xA, 0xE, 0x1, 0xF])     # AL block: the instruction executes, IT state is live
    if cell.get('insn') == 'bxj' and it:
        it = 0xE8                 # BXJ must be the last instruction of an IT block
    cpsr = G.random_cpsr(rng, cfg, mode=cell['mode'], thumb=thumb, it=it, e=None)
    if kind in ('irq', 'fiq'):
        cpsr &= ~(1 << (7 if kind == 'irq' else 6))      # unmasked so the line is delivered at the next boundary
    pcs = [G.CODE + 4 * rng.randrange(0, 256), G.LOW + 0x40 + 4 * rng.randrange(0, 64), G.HIGH + 0x100 + 4 * rng.randrange(64)]
    if kind in ('irq', 'fiq', 'reset'):
        pcs += [0, 4, 0xFFFFFFFC, TOP + 4 * rng.randrange(0, 1000), rng.getrandbits(32) & ~3]
        if thumb:
            pcs += [2, 0xFFFFFFFE, rng.getrandbits(32) & ~1]
    else:
        pcs += [0, 4, TOP + 4 * rng.randrange(0, 1000)] + ([0xFFFFFFFC] if not thumb else [2, 0xFFFFFFFA])
    pc = rng.choice(pcs)
    R = G.random_regfile(rng, cfg)
    sys = {'sctlr': sct, 'scr': scr if sec else 0, 'hcr': hcr if virt else 0,
           'hsctlr': rng.getrandbits(1) << 30 | rng.getrandbits(1) << 25 | (1 if kind == 'dabt' else rng.getrandbits(1)) << 1,
           'vbar': rng.getrandbits(27) << 5, 'mvbar': rng.getrandbits(27) << 5, 'hvbar': rng.getrandbits(27) << 5}
    if cell.get('insn') == 'cp15':
        cell = dict(cell, _crn=rng.choice([0, 1, 2, 3, 5, 6, 7, 8, 9, 10, 11, 12, 13, 15]), _two=int(rng.random() < 0.3))
    if virt:
        sys['hstr'] = cell.get('TJDBX', rng.getrandbits(1)) << 17
        if cell.get('insn') == 'cp15':
            sys['hstr'] = (rng.getrandbits(16) & ~(1 << cell['_crn'])) | cell['TN'] << cell['_crn']
        if cell.get('insn') == 'tee':
            sys['hstr'] = rng.getrandbits(16) | cell['TTEE'] << 16 | rng.getrandbits(1) << 17
    if pmsa:
        regs = [(0, 0, 0)] * 12
        regs[0] = (1 | 31 << 1, 0, 3 << 8)                       # 4 GiB, full access
        regs[5] = (1 | 4 << 1, G.DATA + 0x400, 0)                # 32 bytes, no access, higher priority
        sys.update(G.mpu_sys(regs))
    if kind in ('svc', 'smc', 'und') and rng.random() < 0.5:
        # ... with the register contents such a layer would look at: an operation number in r0, a parameter block pointer in r1
        R['R0usr'] = rng.choice([0x01, 0x02, 0x03, 0x04, 0x05, 0x06, 0x07, 0x09, 0x0A, 0x0C, 0x0E, 0x10, 0x11, 0x12, 0x13, 0x15, 0x16, 0x18, 0x18, 0x18, 0x20, 0x30, 0x31])
        R['R1usr'] = rng.choice([G.DATA + 0x800, 0x20026, 0, G.DATA + 0x80C])
    if kind == 'dabt':
        R['R1usr'] = G.DATA + 0x400 + (rng.choice([1, 2, 3]) if want_align else 4 * rng.randrange(0, 8))
    state = {'cpsr': cpsr, 'pc': pc, 'sys': sys, 'R': R, 'spsr': G.random_spsrs(rng, cfg), 'elr_hyp': rng.getrandbits(32)}
    if kind == 'hyptrap':
        state['event_register'] = bool(rng.getrandbits(1))          # a WFE that finds the event register set is not trapped
    # program: 0-3 filler instructions (harmless moves), then the fault, then possibly nested faults
    pre = rng.choice([0, 0, 1, 2, 3])
    if it:
        pre = 0
    filler = []
    for _ in range(pre):
        filler.append((T.mov_reg(rng.randrange(8, 12), rng.randrange(0, 8)) << 16 | 0xBF00) if thumb else A.mov_reg(rng.randrange(2, 12), rng.randrange(0, 12)))
    words = list(filler)
    events = []
    inject = [{'tick': pre, 'kind': kind}]
    if kind in ('irq', 'fiq', 'reset'):
        events.append({'tick': pre, 'core': 0, 'kind': kind})
        words.append((T.NOP << 16 | T.NOP) if thumb else A.NOP)
    else:
        words.append(_fault_word(kind, thumb, rng, cell))
    # nested faults: what the handler's first instructions do (ISA after entry is not known here: the board picks
    # the word form at run time from the 'nest' list)
    nest = []
    if rng.random() < 0.5:
        for _ in range(rng.choice([1, 2])):
            nest.append(rng.choice(['svc', 'und', 'irq', 'fiq', 'smc', 'dabt']))
    via = 'instr'
    if kind in ('svc', 'und', 'smc', 'dabt', 'hyptrap') and (rng.random() < 0.25 or (kind == 'dabt' and (cell['mode'] == 'hyp' or cell.get('TGE')))):
        via = 'api'          # Registers.take_*_exception() called directly (the only way to reach e.g. a Data Abort taken to Hyp mode)
        words[-1] = (T.NOP << 16 | T.NOP) if thumb else A.NOP
    if virt and thumb and (kind in ('irq', 'fiq') or via == 'api') and rng.random() < 0.25:
        # the entry is taken from ThumbEE state (J = 1, T = 1; a configuration with the extension).  Nothing is EXECUTED in that state here: the fault
        # arrives from the environment or through the API
        cfg['have_thumbee'] = True
        cpsr |= 1 << 24
        state['cpsr'] = cpsr
    if via == 'api' and kind in ('svc', 'smc') and thumb and it and pre == 0 and not (cpsr >> 24) & 1 and cell['mode'] in ('svc', 'irq', 'fiq', 'abt', 'und') and pc < 0xFFFFFF00 and rng.random() < 0.6:
        # the IT state the entry meets was not there from the start: it arrives with an exception RETURN (SUBS PC, LR, #0 restoring an SPSR whose IT bits are
        # live) executed in the step before the entry routine is called
        state['spsr'][cell['mode']] = cpsr
        state['cpsr'] = cpsr & ~0x0600FC00
        R['LR' + cell['mode']] = (pc + 4) & 0xFFFFFFFF
        words.insert(0, T.subs_pc_lr(0))
        inject[0]['tick'] = 1
    if rng.random() < 0.15:
        events.insert(0, {'tick': rng.randrange(0, inject[0]['tick'] + 1), 'core': 0, 'kind': 'regswap'})
    inject[0]['via'] = via
    inject[0]['align'] = want_align
    core = {'config': cfg, 'devices': devices, 'regs': state, 'words': words, 'force': None, 'no_poke': []}
    case = {'scenario': 'entry', 'cell': {k: v for k, v in cell.items()}, 'cores': [core], 'events': events, 'inject': inject,
            'nest': nest, 'nest_seed': rng.getrandbits(32), 'max_ticks': len(words) + 2 * len(nest) + 2, 'stop_at_done': False}
    if rng.random() < 0.25:
        # a predecessor instance with other extensions asked about every mode number before this one was built (whether Monitor / Hyp exist - and with
        # them which SPSR and LR an entry writes - is a property of the configuration, not of the process)
        case['predecessor'] = G.predecessor_for(rng, cfg)
    return case


def gen(item, rng, tier):
    if item['k'] == 'cell':
        return gen_cell(grid()[item['cell']], rng, item['rep'])
    if item['k'] == 's2':
        return gen_s2(s2_grid()[item['cell']], rng, item['rep'])
    case = c18.gen_case({'k': 'stream'}, rng, tier)
    case['hooks'] = bool(rng.getrandbits(1))
    case['scenario'] = 'nested-random'
    return case


# ------------------------------------------------------------------ Data Aborts raised by real translation tables, first and second stage
# The routing of a Data Abort depends on WHICH STAGE of the translation refused the access (TakeDataAbortException: SecondStageAbort() -> Hyp mode
# through the Hyp Trap vector).  In these cells the simulator builds both stages itself, so it knows the stage from the tables it wrote - not from the
# exception object the emulator raises: Non-secure PL1/PL0 guest, HCR.VM = 1, stage-2 long-descriptor tables L1 -> L2 -> L3 with 4 KiB identity pages
# for the low 2 MiB, stage 1 off (HCR.DC = 0/1) or short-descriptor sections; one page/section carries the fault.

S2T = 0x50000                 # table device: +0 stage-2 L1, +0x1000 L2, +0x2000 L3, +0x4000 stage-1 short-descriptor L1 (16 KiB)
S2T_SZ = 0x8000
ALIAS = 0x00100000            # VA of the second stage-1 section (maps PA 0): carries the stage-1 faults
S2_FAULTS = ['none', 's2-trans', 's2-af', 's2-perm', 's2-dev', 's1-perm', 's1-trans', 's1-af', 's1-so']
S2_MODES = ['usr', 'svc', 'irq', 'fiq', 'abt', 'und', 'sys']


def _s2_grid():
    cells = []
    for fault in S2_FAULTS:
        for st1 in ('off-dc', 'off', 'short', 'long'):
            if fault in ('s1-perm', 's1-trans') and st1 not in ('short', 'long'):
                continue
            if fault == 's1-af' and st1 != 'long':
                continue
            if fault == 's1-so' and st1 != 'off':
                continue
            if fault == 's2-dev' and st1 == 'off':
                continue                  # (with stage 1 off and HCR.DC = 0 the access is Strongly-ordered already at stage 1)
            for mode in S2_MODES:
                for t in (0, 1):
                    for load in (0, 1):
                        if fault == 's1-perm' and st1 == 'long' and mode != 'usr' and load:
                            continue      # (no long-descriptor AP value denies a privileged read)
                        cells.append({'fault': fault, 'st1': st1, 'mode': mode, 't': t, 'load': load})
    return cells


_S2GRID = None


def s2_grid():
    global _S2GRID
    if _S2GRID is None:
        _S2GRID = _s2_grid()
    return _S2GRID


def gen_s2(cell, rng, rep):
    cfg = {'arch_version': 7, 'have_security_ext': True, 'have_virt_ext': True, 'have_lpae': True, 'memory_system_architecture': 'VMSA', 'number_of_mpu_regions': 12}
    cfg.update(G.impdef_switches(rng))
    fault, st1, thumb, load = cell['fault'], cell['st1'], cell['t'], cell['load']
    devices = G.std_devices()
    tab = {'kind': 'ram', 'begin': S2T, 'end': S2T + S2T_SZ}
    devices.append(tab)
    ee1, ee2 = rng.getrandbits(1), rng.getrandbits(1)      # SCTLR.EE / HSCTLR.EE: the byte order of the stage-1 / stage-2 descriptors
    q = lambda off, v: G.set_data(tab, off, v.to_bytes(8, 'big' if ee2 else 'little'))
    w = lambda off, v: G.set_data(tab, off, v.to_bytes(4, 'big' if ee1 else 'little'))
    NORMAL = 0xF << 2
    q(0, (S2T + 0x1000) | 0b11)
    for i in (1, 2, 3):
        q(8 * i, i << 30 | 1 << 10 | 3 << 6 | NORMAL | 0b01)                 # 1 GiB identity blocks (the high vectors live in the last one)
    q(0x1000, (S2T + 0x2000) | 0b11)
    for i in range(1, 512):
        q(0x1000 + 8 * i, i << 21 | 1 << 10 | 3 << 6 | NORMAL | 0b01)
    page = G.DATA >> 12
    unaligned = fault in ('s2-dev', 's1-so') or (fault == 'none' and st1 != 'off' and rng.random() < 0.5)
    for i in range(512):
        d = i << 12 | 1 << 10 | 3 << 6 | NORMAL | 0b11
        if i == page:
            if fault == 's2-trans':
                d = rng.choice([d & ~1, d & ~2, 0, d & ~3])                          # invalid, or the encoding that is reserved at level 3
            elif fault == 's2-af':
                d &= ~(1 << 10)
            elif fault == 's2-perm':
                d = (d & ~(3 << 6)) | rng.choice([0, 2 if load else 1]) << 6       # HAP: none, or only the other direction
            elif fault == 's2-dev':
                d = (d & ~(0xF << 2)) | rng.choice([0b0000, 0b0001]) << 2           # Strongly-ordered / Device
            elif fault == 'none' and rng.random() < 0.5:
                d = (d & ~(3 << 6)) | (1 if load else 2) << 6                      # exactly the direction used
        q(0x2000 + 8 * i, d)
    # stage 1
    sect = lambda pa, ap, dom=0: (pa & 0xFFF00000) | (ap & 3) << 10 | (ap >> 2) << 15 | dom << 5 | 0b1110       # C = B = 1: Normal write-back
    w(0x4000, sect(0, 3))
    w(0x4000 + 4 * 0xFFF, sect(0xFFF00000, 3))
    usr = cell['mode'] == 'usr'
    if fault == 's1-perm':
        a = sect(0, rng.choice([0, 1] if usr else [0]) if rng.random() < 0.6 or not load else 0)
        if not load and rng.random() < 0.5:
            a = sect(0, rng.choice([5, 2] if usr else [5, 7, 6]))              # read-only for this privilege
    elif fault == 's1-trans':
        a = rng.choice([0, sect(0, 3) & ~3])
    else:
        a = sect(0, 3)
    if st1 != 'long':
        w(0x4000 + 4 * (ALIAS >> 20), a)
    via_alias = st1 in ('short', 'long') and (fault in ('s1-perm', 's1-trans', 's1-af') or rng.random() < 0.5)
    alias = ALIAS
    if st1 == 'long':
        # long-descriptor stage 1 (TTBCR.EAE = 1, T0SZ = 0): L1 at +0x4000 -> L2 at +0x5000 -> L3 at +0x6000 (identity pages for the low 2 MiB, AttrIndx 0 =
        # Normal write-back through MAIR0); the page at VA 0x80000 maps the data page a second time and carries the stage-1 faults.  Its descriptors are
        # stage-1 descriptors (byte order SCTLR.EE) fetched through stage 2
        q1 = lambda off, v: G.set_data(tab, off, v.to_bytes(8, 'big' if ee1 else 'little'))
        q1(0x4000, (S2T + 0x5000) | 0b11)
        for i in (1, 2, 3):
            q1(0x4000 + 8 * i, i << 30 | 1 << 10 | 1 << 6 | 0b01)
        q1(0x5000, (S2T + 0x6000) | 0b11)
        for i in range(1, 512):
            q1(0x5000 + 8 * i, i << 21 | 1 << 10 | 1 << 6 | 0b01)
        alias = 0x80000
        for i in range(512):
            d = i << 12 | 1 << 10 | 1 << 6 | 0b11                      # AF, AP[2:1] = 01: read/write at any privilege
            if i == alias >> 12:
                d = (G.DATA & ~0xFFF) | 1 << 10 | 1 << 6 | 0b11
                if fault == 's1-trans':
                    d = rng.choice([d & ~1, d & ~2, 0])                 # invalid, or the encoding that is reserved at level 3
                elif fault == 's1-af':
                    d &= ~(1 << 10)
                elif fault == 's1-perm':
                    # AP[2:1]: 00 read/write PL1 only, 01 read/write, 10 read-only PL1 only, 11 read-only
                    ap = rng.choice(([0, 2] if load else [0, 2, 3]) if usr else [2, 3])
                    d = (d & ~(3 << 6)) | ap << 6
            q1(0x6000 + 8 * i, d)
    addr = ((alias - (G.DATA if st1 == 'long' else 0)) if via_alias else 0) + G.DATA + 0x400 + 4 * rng.randrange(0, 64)
    if unaligned:
        addr += rng.choice([1, 2, 3])
    ipa = G.DATA + (addr & 0xFFF)                   # (every alias maps the data page)
    hcr = 1 | (1 << 12 if st1 == 'off-dc' else 0) | rng.getrandbits(1) << 3 | rng.getrandbits(1) << 4 | rng.getrandbits(1) << 5
    scr = 1 | rng.getrandbits(1) << 3 | rng.getrandbits(1) << 4 | rng.getrandbits(1) << 5
    sct = G.sctlr_value(m=1 if st1 in ('short', 'long') else 0, a=0, v=rng.getrandbits(1), u=1, te=rng.getrandbits(1), ee=ee1, nmfi=rng.getrandbits(1), tre=1)
    sys = {'sctlr': sct, 'prrr': 0xFF0A81A8, 'nmrr': 0x40E040E0, 'scr': scr, 'hcr': hcr, 'hsctlr': rng.getrandbits(1) << 30 | ee2 << 25,
           'vbar': rng.getrandbits(27) << 5, 'mvbar': rng.getrandbits(27) << 5, 'hvbar': rng.getrandbits(27) << 5,
           'vttbr': S2T, 'vtcr': 1 << 6 | rng.getrandbits(6) << 8, 'ttbr0': S2T + 0x4000, 'ttbr0_64': S2T + 0x4000, 'ttbr1': S2T + 0x4000, 'ttbr1_64': S2T + 0x4000,
           'ttbcr': 1 << 31 if st1 == 'long' else 0, 'mair0': 0xFF | rng.getrandbits(24) << 8, 'mair1': rng.getrandbits(32), 'dacr': rng.choice([1, 0x55555555]), 'hstr': 0,
           'dfar': rng.getrandbits(32), 'hdfar': rng.getrandbits(32), 'hsr': rng.getrandbits(32), 'hpfar': rng.getrandbits(28) << 4}
    it = 0
    if thumb and rng.random() < 0.4:
        it = 0xE0 | rng.choice([0x8, 0x4, 0xC, 0x2, 0x6, 0xA, 0xE, 0x1, 0xF])
    cpsr = G.random_cpsr(rng, cfg, mode=cell['mode'], thumb=thumb, it=it, e=None)
    R = G.random_regfile(rng, cfg)
    R['R1usr'] = addr
    pc = rng.choice([G.CODE + 4 * rng.randrange(0, 256), G.LOW + 0x40 + 4 * rng.randrange(0, 64), G.HIGH + 0x100 + 4 * rng.randrange(64)])
    state = {'cpsr': cpsr, 'pc': pc, 'sys': sys, 'R': R, 'spsr': G.random_spsrs(rng, cfg), 'elr_hyp': rng.getrandbits(32)}
    if thumb:
        word = T.ldst_imm('ldr' if load else 'str', 0, 1, 0) << 16 | 0xBF00
    else:
        word = A.ldst(load, 0, 1, 0)
    G.set_data(devices[2], 0x400, bytes(rng.getrandbits(8) for _ in range(0x110)))
    core = {'config': cfg, 'devices': devices, 'regs': state, 'words': [word], 'force': None, 'no_poke': [S2T]}
    return {'scenario': 's2', 'cell': dict(cell), 'cores': [core], 'events': [], 'addr': addr, 'ipa': ipa, 'max_ticks': 2, 'stop_at_done': False}


class S2Checker:
    """what the tables built by gen_s2 prescribe: whether the access aborts, which stage refuses it (-> Abort mode or Hyp mode: the EntryMonitor's
    model is told the stage), and where the faulting address is reported"""

    def __init__(self, b, mon, case):
        self.b, self.mon, self.case = b, mon, case
        f = case['cell']['fault']
        self.want = None if f == 'none' else ('s2' if f.startswith('s2') else 's1')
        mon.stage_override = (self.want == 's2')

    def on_tick(self, b, rec):
        if rec['tick'] != 0 or rec['what'] != 'step':
            return
        cell, addr = self.case['cell'], self.case['addr']
        if rec['nie']:
            b.count('probe.s2-ended-in-unimplemented-hook')
            return
        if rec['exc'] or not self.mon.complete:
            return
        got = [k for tt, k in self.mon.taken if tt == 0]
        r = b.cores[0].arm.registers
        if self.want is None:
            if got:
                b.violate('entry_dispatch', 'dabt', 'spurious_abort', 'access at %#x permitted by both stages (%s, %s) but %s taken; DFSR=%#x HSR=%#x' % (
                    addr, cell['st1'], cell['fault'], got, r.dfsr.value, r.hsr.value))
            b.count('s2.no-fault-checked')
            return
        if got != ['dabt']:
            b.violate('entry_dispatch', 'dabt', 'not_taken' if not got else 'wrong_kind', '%s at %#x (stage 1 %s, fault %s): expected one Data Abort entry, dispatched %s' % (
                'load' if cell['load'] else 'store', addr, cell['st1'], cell['fault'], got or 'none'))
            return
        mode = rec['post'][1] & 0x1F
        b.count('s2.%s-checked' % cell['fault'])
        b.cover.add('s2|%s|%s|%s|%d|%d|%x' % (cell['fault'], cell['st1'], cell['mode'], cell['t'], cell['load'], mode))
        # (the target mode and every saved value were compared by the EntryMonitor, with the stage taken from the tables)
        if mode == 0x1a:
            if r.hdfar != addr:
                b.violate('entry_syndrome', 'dabt', 'hdfar', 'second-stage %s at %#x taken to Hyp mode: HDFAR = %#x' % (cell['fault'], addr, r.hdfar))
            ec = (r.hsr.value >> 26) & 0x3F
            if ec != 0x24:
                b.violate('entry_hsr', 'dabt', 'hsr_ec', 'Data Abort from a Non-secure PL1/PL0 mode taken to Hyp mode: HSR.EC = %#x, expected 0x24' % ec)
            if cell['fault'] in ('s2-trans', 's2-af') and (r.hpfar.value >> 4) != self.case['ipa'] >> 12:
                # (HPFAR is valid for second-stage Translation and Access flag faults; UNKNOWN for a second-stage Permission fault on the access itself)
                b.violate('entry_syndrome', 'dabt', 'hpfar', 'second-stage %s at VA %#x, IPA %#x: HPFAR = %#x' % (cell["fault"], addr, self.case['ipa'], r.hpfar.value))
        elif mode == 0x17:
            if r.dfar != addr:
                b.violate('entry_syndrome', 'dabt', 'dfar', 'first-stage %s at %#x taken to Abort mode: DFAR = %#x' % (cell['fault'], addr, r.dfar))
            if (r.dfsr.value >> 11) & 1 != (0 if cell['load'] else 1):
                b.violate('entry_syndrome', 'dabt', 'dfsr_wnr', 'first-stage %s (%s) at %#x: DFSR = %#x' % (cell['fault'], 'load' if cell['load'] else 'store', addr, r.dfsr.value))


# ------------------------------------------------------------------ expected dispatch for controlled injections

def expected_kind(kind, arm, cfg, cell=None):
    """which entry the architecture prescribes for the injected instruction in the state it meets"""
    r = arm.registers
    sec, virt = cfg.get('have_security_ext', True), cfg.get('have_virt_ext', False)
    m = r.cpsr.value & 0x1F
    ns = r.scr.value & 1 if sec else 0
    secure = (not sec) or (not ns) or m == 0x16
    hcr = r.hcr.value
    if kind == 'smc':
        if not sec or m == 0x10:
            return 'und'
        if virt and not secure and m != 0x1a and (hcr >> 19) & 1:
            return 'hyptrap'
        if (r.scr.value >> 7) & 1:
            return 'und' if not secure else None       # SCD in Secure state: UNPREDICTABLE
        return 'smc'
    if kind == 'hyptrap' and (cell or {}).get('insn') == 'tee':
        # ThumbEE configuration registers: trapped from Non-secure PL1 modes when HSTR.TTEE is set, never from Hyp mode
        if m == 0x10:
            return None
        return 'hyptrap' if (virt and not secure and m != 0x1a and (r.hstr.value >> 16) & 1) else 'none'
    if kind == 'hyptrap' and (cell or {}).get('insn') == 'cp15':
        # CP15 access from a Non-secure PL1 mode with HSTR.T<CRn> set: Hyp trap; otherwise the (not implemented) CP15 access itself
        if m == 0x10:
            return None
        return 'hyptrap' if (virt and not secure and m != 0x1a and (r.hstr.value >> cell['_crn']) & 1) else 'none'
    if kind == 'hyptrap' and (cell or {}).get('insn') == 'bxj':
        # BXJ: trapped to Hyp mode from Non-secure PL1/PL0 when HSTR.TJDBX is set, whatever JMCR.JE says; otherwise it branches
        return 'hyptrap' if (virt and not secure and m != 0x1a and (r.hstr.value >> 17) & 1) else 'none'
    if kind == 'hyptrap':
        bit = 13 if (cell or {}).get('insn', 'wfi') == 'wfi' else 14
        if virt and not secure and m != 0x1a and (hcr >> bit) & 1:
            if bit == 14 and r.event_register:
                return 'none'
            return 'hyptrap'
        return 'none'
    return kind


class Injector:
    """sets the expectation for controlled injection ticks and appends the nested fault words at run time"""

    def __init__(self, b, mon, case):
        import random
        self.b, self.mon, self.case = b, mon, case
        self.cfg = M.full_config(case['cores'][0]['config'])
        self.rng = random.Random(case['nest_seed'])
        self.inject = {i['tick']: i['kind'] for i in case['inject']}
        self.via = {i['tick']: (i.get('via', 'instr'), i.get('align', False)) for i in case['inject']}
        self.nest = list(case['nest'])
        self.expect = None
        self.words = b.case['cores'][0]['words']

    def before_tick(self):
        """called by the board subclass right before a tick executes"""
        b = self.b
        arm = b.cores[0].arm
        r = arm.registers
        t = b.tick
        self.expect = None
        kind = self.inject.get(t)
        if kind is None and t > max(self.inject) and self.nest and not b.cores[0].dead:
            kind = self.nest.pop(0)
            thumb = (r.cpsr.value >> 5) & 1
            if kind in ('irq', 'fiq'):
                if (r.cpsr.value >> (7 if kind == 'irq' else 6)) & 1:
                    kind = 'svc'         # masked in the handler: use a synchronous fault instead
                else:
                    b.cores[0].lines[kind] = True
                    b.count('fault.%s-asserted' % kind)
            if kind == 'dabt':
                r.set(1, G.DATA + 0x401)
                r.sctlr.a = 1
                r.sctlr.m = 0
                b.count('fault.align')
            w = (T.NOP << 16 | T.NOP if thumb else A.NOP) if kind in ('irq', 'fiq') else _fault_word(kind, thumb, self.rng)
            while len(self.words) <= b.pos[0]:
                self.words.append(A.NOP)
            self.words[b.pos[0]] = w
            b.count('fault.nested-%s' % kind)
        if kind is None:
            return
        if self.via.get(t, ('instr', 0))[0] == 'api' and kind not in ('irq', 'fiq', 'reset'):
            self.api_call(kind, self.via[t][1])
            return
        if kind in ('irq', 'fiq'):
            masked = (r.cpsr.value >> (7 if kind == 'irq' else 6)) & 1
            self.expect = (t, None if masked else kind)
        elif kind == 'reset':
            self.expect = (t, 'reset')
        else:
            thumb = (r.cpsr.value >> 5) & 1
            it = r.cpsr.it
            if thumb and it & 0xF and ((it >> 4) != 0xE or (kind == 'smc' and it & 0xF != 8)):
                return
            self.expect = (t, expected_kind(kind, arm, self.cfg, self.case.get('cell')))
            b.count('fault.%s-instr' % kind)

    def api_call(self, kind, align):
        from armulator.armv6.arm_exceptions import DataAbortException
        from armulator.armv6.enums import DAbort
        r = self.b.cores[0].arm.registers
        self.b.count('fault.%s-api' % kind)
        try:
            if kind == 'dabt':
                # (a second-stage abort only exists for Non-secure PL1/PL0 accesses with the Virtualization Extensions; the instruction path ends
                # in an unimplemented hook first, so the API is the only way to reach its entry)
                s2 = bool(self.cfg.get('have_virt_ext') and r.scr.value & 1 and (r.cpsr.value & 0x1F) not in (0x16, 0x1a) and self.rng.random() < 0.5)
                r.take_data_abort_exception(DataAbortException(DAbort.ALIGNMENT if align else DAbort.PERMISSION, s2))
            else:
                {'svc': r.take_svc_exception, 'und': r.take_undef_instr_exception, 'smc': r.take_smc_exception,
                 'hyptrap': r.take_hyp_trap_exception}[kind]()
        except NotImplementedError:
            self.b.count('nie.api-' + kind)
        except Exception as e:
            name, site = M.exc_site(e)
            self.b.violate('host_error_in_entry', site, name, repr(e)[:160])
            self.b.cores[0].dead = True

    def on_tick(self, b, rec):
        if rec['what'] in ('irq', 'fiq'):
            b.cores[0].lines[rec['what']] = False       # the (absent) handler acknowledges at once
        if self.expect is None or not self.mon.complete:
            return
        t, want = self.expect
        if rec['what'] != 'step' and want not in ('irq', 'fiq'):
            return
        if want is None:
            return
        got = [k for tt, k in self.mon.taken if tt == t and k != 'reset']
        if want == 'reset':
            return
        cp15 = (self.case.get('cell') or {}).get('insn') in ('cp15', 'tee') and self.inject.get(t) == 'hyptrap'
        if (rec['nie'] or rec['exc']) and not (cp15 and rec['nie'] and not rec['exc']):
            # (a CP15 access always ends in the declared-unimplemented CP15 hook, but only AFTER the trap decision: that decision is still checked)
            return
        if want == 'none':
            if got:
                b.violate('entry_dispatch', self.inject.get(t, 'nested'), 'unexpected_entry', 'tick %d: no exception expected, %s taken' % (t, got))
            return
        if want in got and (rec['post'][1] & 0x1F) == 0x1a and want in ('hyptrap', 'svc'):
            # exception class of the syndrome written for an entry to Hyp mode (only HSR.EC is compared; ISS/IL are not)
            kind0 = self.inject.get(t)
            ec = (b.cores[0].arm.registers.hsr.value >> 26) & 0x3F
            cell_ = self.case.get('cell') or {}
            want_ec = {'hyptrap': 0x13 if kind0 == 'smc' else {'bxj': 0x0A, 'cp15': 0x04 if cell_.get('_two') else 0x03, 'tee': 0x05}.get(cell_.get('insn'), 0x01), 'svc': 0x11}[want]
            if kind0 in ('hyptrap', 'smc', 'svc') and ec != want_ec:
                b.violate('entry_hsr', want, 'hsr_ec', 'entry to Hyp mode for %s: HSR.EC = %#x, expected %#x' % (kind0, ec, want_ec))
            b.cover.add('hsr|%s|%x' % (kind0, ec))
        lp = getattr(self.mon, 'last_post', None)
        if got and lp and lp[0] == t and not rec['nie'] and not rec['exc'] and rec.get('post') is not None and rec['post'] != lp[1]:
            d = [i for i, (x, y) in enumerate(zip(rec['post'], lp[1])) if x != y]
            regs = [M.RNAMES[i] for i, (x, y) in enumerate(zip(rec['post'][0], lp[1][0])) if x != y]
            b.violate('entry_model', got[-1], 'state_changed_after_entry', 'tick %d: after the %s entry the step went on and changed %s (fields %s); pre cpsr=%#x pc=%#x opcode=%#x' % (
                t, got[-1], regs, d, rec['pre'][1], rec['pre_pc'], b.cores[0].arm.opcode))
        if want not in got:
            b.violate('entry_dispatch', want, 'not_taken' if not got else 'wrong_kind',
                      'tick %d: expected %s entry, dispatched %s; pre cpsr=%#x pc=%#x opcode=%#x' % (t, want, got or 'none', rec['pre'][1], rec['pre_pc'], b.cores[0].arm.opcode))


class EntryBoard(StreamBoard):
    injector = None

    def step_core(self, ci):
        if self.injector is not None:
            self.injector.before_tick()
        return super().step_core(ci)


def run(case):
    p0 = M.env.print_count[0]
    if case['scenario'] == 'entry':
        core0 = case['cores'][0]
        words = list(core0['words'])
        while len(words) < case['max_ticks']:
            words.append(A.NOP)
        case = dict(case, cores=[dict(core0, words=words)])
        b = EntryBoard(case, [])
        mon = EntryMonitor(b, 0)
        inj = Injector(b, mon, case)
        b.injector = inj
        b.observers = [mon, inj, RangeMonitor(report=False)]
    elif case['scenario'] == 's2':
        b = StreamBoard(case, [])
        # (the integrator's hook of the stream runs below: without it every Hyp-routed abort ends in the declared-unimplemented cache-maintenance mock)
        b.cores[0].arm.tlb_lookup_came_from_cache_maintenance = lambda: False
        mon = EntryMonitor(b, 0)
        b.observers = [mon, S2Checker(b, mon, case), RangeMonitor(report=False)]
    else:
        b = StreamBoard(case, [])
        if case.get('hooks'):
            # an integrator's hook in place of the declared-unimplemented mock tlb_lookup_came_from_cache_maintenance() ("no, it was an ordinary access"):
            # with it the long-descriptor and Hyp-routed abort paths run to their exception entry instead of ending in NotImplementedError
            b.cores[0].arm.tlb_lookup_came_from_cache_maintenance = lambda: False
            b.count('probe.integrator-hook-installed')
        mon = EntryMonitor(b, 0)
        b.observers = [mon, RangeMonitor(report=False)]
    b.run()
    b.count('prints', M.env.print_count[0] - p0)
    return {'violations': b.violations, 'cover': b.cover, 'stats': b.stats, 'ticks': b.tick, 'digest': b.digest(),
            'interesting': bool(b.violations)}


def sample(case, res):
    c = case['cores'][0]
    d = {'scenario': case['scenario'], 'config': c['config'], 'start_cpsr': hex(c['regs']['cpsr']), 'start_pc': hex(c['regs'].get('pc', 0)),
         'words': ['%08x' % w for w in c['words'][:8]], 'events': [{k: v for k, v in e.items() if k != 'regs'} for e in case['events'][:6]],
         'ticks': res['ticks'], 'violations': res['violations'][:2]}
    if case['scenario'] == 'entry':
        d.update(cell=case['cell'], inject=case['inject'], nest=case['nest'], sys={k: hex(v) for k, v in c['regs']['sys'].items() if isinstance(v, int)})
    if case['scenario'] == 's2':
        d.update(cell=case['cell'], addr=hex(case['addr']), sys={k: hex(v) for k, v in c['regs']['sys'].items() if isinstance(v, int)})
    return d


def shrink(case):
    if case['scenario'] == 's2':
        core = case['cores'][0]
        regs = core['regs']
        if regs.get('spsr'):
            yield dict(case, cores=[dict(core, regs=dict(regs, spsr={}))])
        if len(regs.get('R') or {}) > 1:
            yield dict(case, cores=[dict(core, regs=dict(regs, R={'R1usr': regs['R']['R1usr']}))])
        return
    if case['scenario'] != 'entry':
        for c in c18.shrink(dict(case, scenario='corrupt')):
            yield dict(c, scenario='nested-random')
        return
    if case['nest']:
        yield dict(case, nest=[])
        yield dict(case, nest=case['nest'][:1])
    core = case['cores'][0]
    pre = case['inject'][0]['tick']
    if pre > 0:
        c = dict(case)
        c['cores'] = [dict(core, words=core['words'][pre:])]
        c['inject'] = [{'tick': 0, 'kind': case['inject'][0]['kind']}]
        c['events'] = [dict(e, tick=0) for e in case['events']]
        yield c
    regs = core['regs']
    for key in ('spsr', 'R'):
        if regs.get(key):
            r2 = dict(regs)
            r2[key] = {}
            if key == 'R' and case['inject'][0]['kind'] == 'dabt':
                r2[key] = {'R1usr': regs['R'].get('R1usr', 0)}
            yield dict(case, cores=[dict(core, regs=r2)])
