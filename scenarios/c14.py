"""C14 — PMSA protection.

'translate'   seeded region sets (0-12 regions, sizes 2^2..2^32, overlapping/nested, subregion masks, every AP, SCTLR.M/BR) and
              addresses on region/subregion boundaries: ArmV6.translate_address() against models/mpu, incl. DFSR/DFAR/WnR.
'deny_at_k'   one load/store instruction (ARM/Thumb, single / dual / multiple, every addressing mode, seeded fields) executed as
              a real program with real vectors and a grant-and-retry abort handler.  The access list is learned from a fault-free
              run through a recording RAM; then, for EVERY position k of the transfer, the layout is shifted so that the k-th
              access is the first one inside a denied region.  Oracle: abort taken with DFAR = that address, DFSR = permission/
              background + WnR, LR_abt/SPSR_abt/vector per the entry model, base register unchanged, no device access at or
              beyond the denied address, no byte of the denied region changed, nothing outside the instruction's footprint
              changed; after the handler has the region granted and returns with SUBS PC,LR,#8 the final state equals the
              never-denied run (retry transparency).
'align'       SCTLR.A=1 / architectural alignment rules: a misaligned access faults with an alignment status, DFAR = address,
              no transfer, no write-back.
'revoke'      a generated main program with loops of loads/stores; the supervisor revokes and the handler re-grants the data
              page at seeded ticks (allowed -> denied -> allowed); transparency against the never-revoked run."""
import random

from sim import gen as G, machine as M, prog as P
from sim.asm import A, T, emit, size_of
from sim.board import Board
from sim.entrymon import EntryMonitor
from sim.models import mpu as MPU
from sim.monitors import RangeMonitor
from sim.mputap import TranslateTap
from scenarios.c12 import ReturnChecker, ViewRecorder, build_program_case, fault_free_ticks

PROPERTY = 'C14'
LEVEL = 'fault_enumeration'
BUDGET_S = {'quick': 180, 'thorough': 2700}
EXHAUSTIVE = {'quick': False, 'thorough': False}
RULE = ("deny-sweep: the systematic sweeps of the 32-bit Thumb / ARM encoding spaces with every register pointing at the edge of a no-access block: no byte of it "
        "changes, an abort's DFAR is a denied address, the base register (Rn field) of an aborted instruction is unchanged.  "
        "translate: seeded region sets x boundary-biased addresses x priv x direction vs the MPU model; deny_at_k: seeded load/store encodings x main mode x "
        "denial kind (no-access / privileged-only / read-only / background) with the first denied access enumerated over every position k of the learned "
        "access list; align: vocabulary accesses with misaligned addresses; revoke: seeded revoke schedules over generated programs. distinct_nontrivial = "
        "distinct (instruction class, n accesses, k, read/write, privilege, fault type) tuples in which an abort was actually taken, plus distinct (region "
        "count, winning region, subregion hit, AP, outcome) tuples of translate.")
ASSUMPTIONS = [
    "AP encodings 0b100 and 0b111 (UNPREDICTABLE in PMSA) are generated only in 'translate' and not compared",
    "registers loaded by a load-multiple before the aborting access are UNKNOWN; forms with the base register in the list are excluded from the base-unchanged and retry oracles",
    "the access list is learned from the emulator's own fault-free run (order/footprint correctness is C02/C03's subject); what is checked is the behaviour at the first denied access",
    "have_lpae=false (with LPAE every data abort reaches a not-implemented hook)",
]

BOUND = G.DATA + 0x800            # addresses >= BOUND inside the deny region are denied
DREG = 10                          # the deny region (highest priority used)


def plan(tier, seed):
    # deny-sweep: the systematic sweeps of the 32-bit Thumb and ARM encoding spaces with EVERY register pointing at the edge of a no-access region
    sw = lambda rt, ra: ([{'k': 'deny-sweep', 'sub': 'sweepT32', 'slice': i, 'rep': rt} for i in range(0, 384, 8)] +
                         [{'k': 'deny-sweep', 'sub': 'sweepA32', 'slice': i, 'rep': ra} for i in range(0, 8192, 64)] +
                         [{'k': 'deny-sweep', 'sub': 'sweep16', 'slice': i, 'of': 64, 'ctx': 0} for i in range(64)])          # and every 16-bit Thumb word
    if tier == 'quick':
        return [{'k': 'witness-pushw'}] + [{'k': 'translate'}] * 8000 + [{'k': 'deny'}] * 12000 + [{'k': 'align'}] * 4000 + [{'k': 'revoke'}] * 4000 + sw(48, 6)
    return [{'k': 'witness-pushw'}] + [{'k': 'translate'}] * 200000 + [{'k': 'deny'}] * 300000 + [{'k': 'align'}] * 80000 + [{'k': 'revoke'}] * 100000 + sw(512, 64) * 3


# =================================================================== translate

def gen_translate(rng):
    nreg = rng.choice([12, 12, 8, 16, 4])
    regs = G.random_mpu(rng, nreg, focus=(0x10000, 0x10100, 0x20000, 0, 0xFFFF0000))
    # AP over the full 0..7 range here
    regs = [(a, b, (c & ~0x700) | rng.randrange(8) << 8) if rng.random() < 0.3 else (a, b, c) for a, b, c in regs]
    dregion = rng.choice([nreg, nreg, nreg, rng.randrange(0, nreg + 1)])
    probes = []
    for _ in range(24):
        a, b, c = rng.choice(regs)
        ls = ((a >> 1) & 0x1F) + 1
        span = (1 << ls) if ls < 32 else 0
        sub = 1 << max(ls - 3, 0)
        va = (b + rng.choice([0, -1, 1, span - 1, span, span + 1, sub, sub - 1, 2 * sub, 3 * sub + 1, 7 * sub, rng.getrandbits(min(ls, 32))])) & 0xFFFFFFFF
        if rng.random() < 0.15:
            va = rng.getrandbits(32)
        probes.append([va, rng.getrandbits(1), rng.getrandbits(1)])
    return {'scenario': 'translate', 'regions': [list(x) for x in regs], 'dregion': dregion, 'm': int(rng.random() < 0.9), 'br': rng.getrandbits(1),
            'probes': probes, 'nreg': nreg}


def run_translate(case):
    from armulator.armv6.arm_exceptions import DataAbortException
    from armulator.armv6.enums import DAbort
    viol, cover, stats = [], set(), {}
    cfg = {'arch_version': 7, 'memory_system_architecture': 'PMSA', 'have_security_ext': False, 'number_of_mpu_regions': case['nreg']}
    arm = M.new_arm({'config': cfg, 'devices': [], 'reset': True})
    r = arm.registers
    regs = [tuple(x) for x in case['regions']]
    M.load_state(arm, {'sys': dict(G.mpu_sys(regs, case['dregion']), sctlr=G.sctlr_value(m=case['m'], br=case['br'], u=1))})
    n = 0
    for va, priv, wr in case['probes']:
        want, reg = MPU.decide(regs, case['m'], case['br'], va, bool(priv), bool(wr), case['dregion'])
        r.dfar = 0
        r.dfsr.value = 0
        try:
            arm.translate_address(va, bool(priv), bool(wr), 4, True)
            got = 'ok'
        except DataAbortException as e:
            got = {DAbort.PERMISSION: 'perm', DAbort.BACKGROUND: 'background'}.get(e.abort_type, str(e.abort_type))
        except Exception as e:
            name, site = M.exc_site(e)
            viol.append({'oracle': 'mpu.translate', 'site': site, 'cls': 'host_error:' + name, 'detail': repr(e)[:160], 'tick': n})
            break
        n += 1
        ap = (regs[reg][2] >> 8) & 7 if reg is not None else -1
        sub = 0
        if reg is not None:
            ls = ((regs[reg][0] >> 1) & 0x1F) + 1
            sub = int(ls >= 8 and (regs[reg][0] >> 8) & 0xFF != 0)
        cover.add('tr|%d|%s|%d|ap%d|%s' % (sum(1 for x in regs if x[0] & 1), reg, sub, ap, got))
        stats['fault.mpu-deny' if got != 'ok' else 'probe.mpu-allow'] = stats.get('fault.mpu-deny' if got != 'ok' else 'probe.mpu-allow', 0) + 1
        if want == 'unpredictable':
            continue
        if got != want:
            viol.append({'oracle': 'mpu.translate', 'site': 'translate_address', 'cls': '%s_instead_of_%s' % (got, want), 'tick': n,
                         'detail': 'va %#x priv=%d write=%d: %s, model %s (winning region %s, AP %d, M=%d BR=%d, DRegion=%d)' % (
                             va, priv, wr, got, want, reg, ap, case['m'], case['br'], case['dregion'])})
            break
        if got != 'ok':
            fs = MPU.dfsr_fs(r.dfsr.value)
            if r.dfar != va or ((r.dfsr.value >> 11) & 1) != wr or fs != MPU.fault_status(got):
                viol.append({'oracle': 'mpu.translate', 'site': 'translate_address', 'cls': 'fault_bookkeeping', 'tick': n,
                             'detail': 'va %#x write=%d %s: DFAR %#x DFSR %#x (FS %#x), expected DFAR %#x WnR %d FS %#x' % (
                                 va, wr, got, r.dfar, r.dfsr.value, fs, va, wr, MPU.fault_status(got))})
                break
    return {'violations': viol, 'cover': cover, 'stats': stats, 'ticks': n, 'digest': M.digest_of(sorted(cover))}


# =================================================================== deny_at_k

def ldst_word(rng, thumb):
    """a seeded load/store encoding (family-level random fields, like an assembler would emit plus neighbours)"""
    if not thumb:
        c = rng.random()
        w = (rng.getrandbits(28) | 0xE0000000)
        if c < 0.40:
            w = (w & ~(3 << 26)) | 1 << 26                       # LDR/STR/LDRB/STRB immediate & register
            if rng.random() < 0.6:
                w &= ~(1 << 25)
                w = (w & ~0xFFF) | rng.randrange(0, 64)
        elif c < 0.75:
            w = (w & ~(7 << 25)) | 4 << 25                       # LDM/STM, all four modes
            w &= ~(1 << 22)                                      # no ^ forms here
            w = (w & ~0xFFFF) | (rng.getrandbits(15) or 1)
        else:
            w = (w & ~(7 << 25)) | 0x90                          # extra load/store: halfword, dual, signed
            w |= 1 << 22 if rng.random() < 0.6 else 0
            w = (w & ~0xF0F) | rng.randrange(0, 16) << 8 & 0x000 | rng.randrange(0, 16)
        return w
    c = rng.random()
    if c < 0.45:
        return rng.choice([rng.randrange(0x5000, 0xA000), 0xB400 | rng.getrandbits(8), 0xBC00 | rng.getrandbits(8), 0xC000 | rng.getrandbits(12), 0x9000 | rng.getrandbits(12)])
    hi = rng.choice([0xE800, 0xE900, 0xF800, 0xF900, 0xE840, 0xE9C0, 0xE8C0]) | rng.getrandbits(6)
    lo = rng.getrandbits(16)
    if (hi & 0xFE40) == 0xE800:
        lo &= 0x5FFF                                             # LDM/STM.W: no SP/PC in list
    return hi << 16 | lo


def _one_shot_case(rng, word, thumb, mode, te, regs, mpu, sct_extra=None, arch=7, top=False):
    """program = [word, b .] with vectors/handlers; DATA is a recording RAM"""
    rets = {k: (P.RETURNS_THUMB if te else P.RETURNS_ARM)[k][0] for k in ('irq', 'fiq', 'svc', 'und')}
    rets['dabt'] = 'subs8'
    low, hinfo = P.build_low(te, rets)
    words = [word, T.SELF if thumb else A.SELF]
    code = emit(words, thumb)
    devices = G.std_devices(rec_data=True, high=False)
    G.set_data(devices[0], 0, low)
    base = G.CODE
    if top:
        mpu = list(mpu)
        mpu[11] = (1 | 11 << 1, 0xFFFFF000, 3 << 8)          # (the page is reachable whatever the lower-numbered regions say)
        # the program occupies the LAST bytes of the address space (instruction + 8 passes 2^32)
        base = 0x100000000 - len(code)
        hi = {'kind': 'ram', 'begin': 0xFFFFF000, 'end': 0x100000000}
        G.set_data(hi, 0x1000 - len(code), code)
        devices.append(hi)
    else:
        G.set_data(devices[1], 0, code)
    cfg = {'arch_version': arch, 'have_security_ext': False, 'have_virt_ext': False, 'have_lpae': False, 'memory_system_architecture': 'PMSA', 'number_of_mpu_regions': 12}
    cfg.update(G.impdef_switches(rng))           # implementation-defined choices must not touch DFAR/DFSR status/WnR of MPU and alignment faults
    ee = int(rng.random() < 0.3)
    st = P.main_state(rng, cfg, mode, thumb, te, dict(G.mpu_sys(mpu, nu=rng.getrandbits(1))), e=int(rng.random() < 0.25), ee=ee)
    st['sys']['sctlr'] = G.sctlr_value(m=1, a=0, u=1, te=te, v=0, br=0, ee=ee, **(sct_extra or {}))
    for i, v in enumerate(regs):
        st['R'][('R%dusr' % i) if i < 13 else ('SPusr', 'LRusr')[i - 13]] = v
    from sim.models.banking import phys
    for i, v in enumerate(regs):
        st['R'][phys(i, M.MODES[mode])] = v          # the registers the main mode sees (banked SP/LR, R8-R12 in FIQ mode)
    st['pc'] = base
    core = {'config': cfg, 'devices': devices, 'regs': st, 'done_pc': base + len(code) - (2 if thumb else 4)}
    meta = {'thumb': thumb, 'te': te, 'mode': mode, 'returns': rets, 'main_lo': base, 'main_hi': base + len(code), 'handlers': {k: list(v) for k, v in hinfo.items()}}
    return core, meta


def base_mpu(rng, deny_kind, deny_shape):
    """regions: 0 = everything (full access) unless the 'background' kind, 1..6 seeded low-priority noise inside DATA, 9 = DATA page full access,
    10 = the deny region starting at BOUND"""
    mpu = [(0, 0, 0)] * 12
    mpu[0] = (1 | 31 << 1, 0, 3 << 8)
    for i in range(1, 7):
        if rng.random() < 0.5:
            rs = rng.choice([4, 5, 7, 8, 10])
            base = (G.DATA + rng.randrange(0, 0x1000)) >> (rs + 1) << (rs + 1)
            mpu[i] = (1 | rs << 1 | (rng.getrandbits(8) if rs >= 7 and rng.random() < 0.4 else 0) << 8, base, rng.choice([0, 1, 2, 3, 5, 6]) << 8)
    mpu[9] = (1 | 11 << 1, G.DATA, 3 << 8)
    ap = {'none': 0, 'privonly': 1, 'readonly_user': 2, 'readonly': 6, 'priv_readonly': 5}.get(deny_kind, 0)
    if deny_shape == '4B':
        # the smallest region there is: ONE word, at BOUND + 4, so that the word in front of it (BOUND) is doubleword aligned - a transfer that
        # treats an aligned pair as one 64-bit access and looks up only its first word runs straight through it
        mpu[DREG] = (1 | 1 << 1, BOUND + 4, ap << 8)
    elif deny_shape == '32B':
        mpu[DREG] = (1 | 4 << 1, BOUND, ap << 8)
    elif deny_shape == '256B-sub':
        sd = rng.getrandbits(8) & ~1            # subregion 0 (the one at BOUND) stays enabled, others seeded
        mpu[DREG] = (1 | 7 << 1 | sd << 8, BOUND, ap << 8)
    else:
        mpu[DREG] = (1 | 10 << 1, BOUND, ap << 8)
    # memory attributes (TEX, S, C, B) and XN never affect a data access permission: seeded on every data region
    for i in list(range(1, 7)) + [9, DREG]:
        if mpu[i][0] & 1:
            mpu[i] = (mpu[i][0], mpu[i][1], mpu[i][2] | rng.getrandbits(6) | rng.getrandbits(1) << 12)
    if deny_kind == 'background':
        # no region covers [BOUND, +2K): remove the catch-alls there; code/stack/low stay mapped by dedicated regions
        mpu[0] = (1 | 16 << 1, 0, 3 << 8)                        # 128 KiB from 0: LOW + CODE
        mpu[7] = (1 | 11 << 1, G.STACKS, 3 << 8)
        mpu[8] = (1 | 11 << 1, G.INTC & ~0xFFF, 3 << 8)
        mpu[9] = (1 | 10 << 1, G.DATA, 3 << 8)                   # only the lower 2 KiB of DATA
        mpu[DREG] = (0, BOUND, 0)
        for i in range(1, 7):
            if mpu[i][0] & 1 and mpu[i][1] >= BOUND:
                mpu[i] = (0, 0, 0)
    return mpu


def gen_deny(rng):
    thumb = rng.getrandbits(1)
    te = rng.getrandbits(1)
    mode = rng.choice(['usr', 'usr', 'usr', 'sys', 'svc', 'svc', 'irq', 'fiq', 'und'])
    priv = mode != 'usr'
    kinds = ['none', 'background'] + (['privonly', 'readonly_user'] if not priv else ['priv_readonly']) + ['readonly']
    deny_kind = rng.choice(kinds)
    shape = rng.choice(['32B', '256B-sub', '2KB', '4B'] if deny_kind != 'background' else ['32B', '256B-sub', '2KB'])
    pc_load = rng.random() < 0.3
    arch = rng.choice([6, 7, 7])
    srs = mode == 'svc' and rng.random() < 0.25
    top = rng.random() < 0.12 and not pc_load
    for _ in range(60):
        w = ldst_word(rng, thumb)
        if srs:
            # SRS: stores LR and SPSR of the current mode on the stack of ANOTHER mode, with write-back to that mode's banked SP
            tgt = rng.choice([0x13, 0x12, 0x11, 0x1b, 0x1f])
            w = T.srs(tgt, db=rng.getrandbits(1), w=rng.getrandbits(1)) if thumb else A.srs(tgt, p=rng.getrandbits(1), u=rng.getrandbits(1), w=rng.getrandbits(1))
        if pc_load and not srs:
            # loads into the PC: every word of the data page holds the address of the done marker, so 'LDM ..{..,pc}' and
            # 'LDR pc,[..]' end the program wherever they load from
            if not thumb:
                if (w >> 25) & 7 == 4:
                    w |= 1 << 20 | 1 << 15
                elif (w >> 26) & 3 == 1:
                    w = (w | 1 << 20 | 0xF << 12) & ~(1 << 22)
            elif w > 0xFFFF and (w >> 16) & 0xFE40 == 0xE800:
                w = (w | 1 << 20 | 0x8000) & ~0x4000
            elif w <= 0xFFFF and (w & 0xFE00) == 0xBC00:
                w |= 0x100
        D = G.DATA + 0x400
        regs = [rng.choice([D + 8 * rng.randrange(-8, 8), D + 4 * rng.randrange(-16, 16), rng.randrange(0, 40), 4 * rng.randrange(0, 16)]) for _ in range(15)]
        regs[13] = D + 8 * rng.randrange(-4, 8)
        mpu = base_mpu(rng, deny_kind, shape)
        core, meta = _one_shot_case(rng, w if not thumb or w > 0xFFFF else w, thumb, mode, te, regs, mpu, arch=arch, top=top)
        if srs:
            for bank in ('usr', 'svc', 'irq', 'fiq', 'und'):
                core['regs']['R']['SP' + bank] = D + 8 * rng.randrange(-4, 8)
        if pc_load:
            done = core['done_pc'] | (1 if thumb else 0)
            core['devices'][2]['fill'] = done.to_bytes(4, 'little').hex()
        info = probe_clean(core, meta)
        if info is not None:
            break
    else:
        raise RuntimeError('no usable load/store word found')
    return {'scenario': 'deny_at_k', 'cores': [core], 'meta': meta, 'word': w, 'deny_kind': deny_kind, 'shape': shape, 'events': [], 'max_ticks': 400,
            'bound': BOUND + 4 if shape == '4B' else BOUND}


def _with_deny(core, on, bg=False):
    regs = dict(core['regs'])
    sysr = dict(regs['sys'])
    sysr['drsrs'] = list(sysr['drsrs'])
    if not on:
        if sysr['drsrs'][DREG] & 1:
            sysr['drsrs'][DREG] &= ~1
        else:
            # background kind: 'granting' = widening region 9 to the whole DATA page
            sysr['drsrs'][9] = 1 | 11 << 1
    regs['sys'] = sysr
    return dict(core, regs=regs)


def _shift_base(core, meta, word, delta):
    """shift the base register Rn (bits 19:16 for ARM and 32-bit Thumb; bits 5:3 / 10:8 / SP for 16-bit Thumb) by delta"""
    thumb = meta['thumb']
    srs_bank = None
    if (not thumb and (word & 0xFE5FFFE0) == 0xF84D0500) or (thumb and (word >> 16) & 0xFFDF in (0xE80D, 0xE98D) and (word & 0xFFE0) == 0xC000):
        srs_bank = {0x13: 'svc', 0x12: 'irq', 0x11: 'fiq', 0x1b: 'und', 0x1f: 'usr', 0x10: 'usr', 0x17: 'abt', 0x16: 'mon'}.get(word & 0x1F)
    if srs_bank is not None:
        regs = dict(core['regs'])
        R = dict(regs['R'])
        R['SP' + srs_bank] = (R['SP' + srs_bank] + delta) & 0xFFFFFFFF
        regs['R'] = R
        return dict(core, regs=regs), 'SP' + srs_bank
    if not thumb or word > 0xFFFF:
        rn = (word >> 16) & 0xF
    else:
        top = word >> 11
        if top in (0b01100, 0b01101, 0b01110, 0b01111, 0b10000, 0b10001) or (word >> 12) == 0b0101:
            rn = (word >> 3) & 7
        elif top in (0b10010, 0b10011) or (word & 0xF600) == 0xB400:
            rn = 13
        elif top in (0b11000, 0b11001):
            rn = (word >> 8) & 7
        else:
            return None, None
    if rn == 15:
        return None, None
    regs = dict(core['regs'])
    R = dict(regs['R'])
    mode = meta['mode']
    from sim.models.banking import phys
    name = phys(rn, M.MODES[mode])
    R[name] = (R[name] + delta) & 0xFFFFFFFF
    regs['R'] = R
    return dict(core, regs=regs), rn


class Tap:
    """records the architectural facts of the first abort and the retry"""

    def __init__(self, meta, mon):
        self.meta, self.mon = meta, mon
        self.abort_rec = None
        self.abort_log = None
        self.abort_state = None
        self.exec_cls = None

    def on_tick(self, b, rec):
        if rec['what'] == 'step' and rec['pre_pc'] == self.meta['main_lo']:
            arm = b.cores[0].arm
            if self.exec_cls is None:
                self.exec_cls = type(arm.executed_opcode).__name__
                self.op = arm.executed_opcode
            kinds = [k for t, k in self.mon.taken if t == rec['tick']]
            if 'dabt' in kinds and self.abort_rec is None:
                self.abort_rec = rec
                data = M.device_at(arm, G.DATA)
                self.abort_log = list(data.log)
                self.abort_mem = bytes(data.memory_array)
                r = arm.registers
                self.abort_state = {'dfar': r.dfar, 'dfsr': r.dfsr.value}


def run_oneshot(core, meta, bg=False):
    b = Board({'cores': [core], 'events': [], 'max_ticks': 200}, [])
    mon = EntryMonitor(b, 0, report=True, oracle='mpu.entry_model')
    rc = ReturnChecker(mon, meta)
    tap = Tap(meta, mon)
    arm = b.cores[0].arm
    ttap = TranslateTap(b, 0)
    intc = M.device_at(arm, G.INTC)
    state = {'grants': 0}

    def grant():
        r = arm.registers
        if r.drsrs[DREG].value & 1:
            r.drsrs[DREG].value &= ~1
        elif bg:
            r.drsrs[9].value = 1 | 11 << 1          # background kind: widen the DATA region to the whole page
        r.sctlr.a = 0
        state['grants'] += 1
        b.count('fault.mpu-grant')
    intc.on_grant = grant
    b.observers = [mon, rc, tap, RangeMonitor(report=False)]
    b.run()
    return b, tap, state


def final_view(b, meta):
    arm = b.cores[0].arm
    r = arm.registers
    mode = M.MODES[meta['mode']]
    return (tuple(r.get_rmode(i, mode) for i in range(15)), r.cpsr.value, r.pc_store_value(), bytes(M.device_at(arm, G.DATA).memory_array))


def probe_clean(core, meta):
    """fault-free run with the deny region off: usable iff it finishes without any exception and touches the data page"""
    b, tap, st = run_oneshot(_with_deny(core, False), meta)
    if not b.cores[0].finished or tap.mon.taken or b.violations:
        return None
    data = M.device_at(b.cores[0].arm, G.DATA)
    log = [x for x in data.log]
    if not log:
        return None
    return {'log': log, 'view': final_view(b, meta), 'cls': tap.exec_cls}


def run_deny(case):
    core, meta = case['cores'][0], case['meta']
    res_b = None
    viol, cover, stats = [], set(), {}

    def count(k, n=1):
        stats[k] = stats.get(k, 0) + n

    clean = probe_clean(core, meta)
    ticks = 2
    if clean is None:
        return {'violations': [{'oracle': 'harness', 'site': 'deny_at_k', 'cls': 'clean_run_unusable', 'detail': 'fault-free run raised an exception', 'tick': 0}],
                'cover': cover, 'stats': stats, 'ticks': ticks, 'digest': ''}
    log0 = clean['log']
    cls = clean['cls']
    word = case['word']
    bound = case.get('bound', BOUND)
    mode = M.MODES[meta['mode']]
    priv = mode != 0x10
    placements = [(k, 0) for k in range(len(log0))]
    # LDRD / STRD without LPAE are TWO word accesses: should an implementation perform an aligned pair as one 8-byte access (the learned list then
    # has one entry of size 8), the pair is also placed ACROSS the boundary, first word allowed, second word denied
    placements += [(k, 4) for k in range(len(log0)) if log0[k][1] == 8 and cls.lower().startswith(('ldrd', 'strd'))]
    for k, straddle in placements:
        off_k, size_k, wr_k = log0[k]
        addr_k = G.DATA + off_k
        delta = bound - straddle - addr_k
        shifted, rn = _shift_base(core, meta, word, delta)
        if shifted is None:
            count('probe.k-skipped-no-base')
            continue
        # re-learn with the shifted base, deny region off
        c2 = probe_clean(shifted, meta)
        ticks += 2
        if c2 is None or len(c2['log']) != len(log0) or c2['log'][k][0] + G.DATA != bound - straddle or any(o + s > bound - G.DATA for o, s, _ in c2['log'][:k]) \
                or any(o + G.DATA < bound - straddle for o, s, _ in c2['log'][k:]):
            count('probe.k-skipped-shift-not-uniform')
            continue
        log = c2['log']
        # is access k really denied under this denial kind?  (model)
        regs = MPU.regions_from_sys(shifted['regs']['sys'])
        dec, reg = MPU.decide(regs, 1, 0, bound, priv and not _is_unpriv(cls), bool(wr_k))
        # the first access (from k on) that the model denies; with read-only kinds the loads of an instruction pass
        first = None
        for j in range(k, len(log)):
            d, _ = MPU.decide(regs, 1, 0, G.DATA + log[j][0], priv and not _is_unpriv(cls), bool(log[j][2]))
            # every byte of the access counts: check its last byte too
            d2, _ = MPU.decide(regs, 1, 0, G.DATA + log[j][0] + log[j][1] - 1, priv and not _is_unpriv(cls), bool(log[j][2]))
            if d != 'ok' or d2 != 'ok':
                first = (j, d if d != 'ok' else d2, G.DATA + log[j][0] if d != 'ok' else (G.DATA + log[j][0] + log[j][1] - 1))
                break
        b, tap, st = run_oneshot(shifted, meta, bg=case['deny_kind'] == 'background')
        ticks += b.tick
        for kk, v in b.stats.items():
            count(kk, v)
        if b.violations:
            viol.extend(b.violations)
            break
        site = _strip(cls)
        aborted = tap.abort_rec is not None
        if first is None:
            cover.add('~deny|%s|noabort' % site)
            if aborted:
                viol.append({'oracle': 'mpu.deny', 'site': site, 'cls': 'spurious_abort', 'tick': k,
                             'detail': '%s (%#x) k=%d kind=%s: abort taken although the model allows every access (DFAR %#x)' % (cls, word, k, case['deny_kind'], tap.abort_state['dfar'])})
                break
            if final_view(b, meta) != c2['view']:
                viol.append({'oracle': 'mpu.deny', 'site': site, 'cls': 'allowed_run_differs', 'tick': k, 'detail': 'run with an (ineffective) deny region differs from the clean run'})
                break
            continue
        j, fkind, faddr = first
        count('fault.deny-at-k')
        if not aborted:
            viol.append({'oracle': 'mpu.deny', 'site': site, 'cls': 'missing_abort', 'tick': k,
                         'detail': '%s (%#x) in mode %#x: access #%d at %#x (%s, size %d) is denied by the model (%s, kind %s, shape %s) but no abort was taken' % (
                             cls, word, mode, j, faddr, 'write' if log[j][2] else 'read', log[j][1], fkind, case['deny_kind'], case['shape'])})
            break
        a = tap.abort_state
        rec = tap.abort_rec
        cover.add('deny|%s|n%d|k%d|%s|%s|%s' % (site, len(log), j, 'w' if log[j][2] else 'r', 'priv' if priv else 'user', fkind))
        # (a) fault bookkeeping
        if a['dfar'] != faddr and log[j][1] == 1 or (log[j][1] > 1 and not (G.DATA + log[j][0] <= a['dfar'] <= G.DATA + log[j][0] + log[j][1] - 1)):
            viol.append({'oracle': 'mpu.deny', 'site': site, 'cls': 'dfar', 'tick': k, 'detail': '%s k=%d: DFAR %#x, first denied access at %#x size %d' % (cls, j, a['dfar'], G.DATA + log[j][0], log[j][1])})
            break
        if ((a['dfsr'] >> 11) & 1) != log[j][2]:
            viol.append({'oracle': 'mpu.deny', 'site': site, 'cls': 'dfsr_wnr', 'tick': k, 'detail': '%s k=%d: DFSR.WnR %d for a %s' % (cls, j, (a['dfsr'] >> 11) & 1, 'write' if log[j][2] else 'read')})
            break
        if MPU.dfsr_fs(a['dfsr']) != MPU.fault_status(fkind):
            viol.append({'oracle': 'mpu.deny', 'site': site, 'cls': 'dfsr_status', 'tick': k, 'detail': '%s k=%d: DFSR %#x (FS %#x), expected FS %#x (%s)' % (
                cls, j, a['dfsr'], MPU.dfsr_fs(a['dfsr']), MPU.fault_status(fkind), fkind)})
            break
        # (b) no device access at or beyond the first denied access; the accesses made are a prefix of the clean list
        blog = tap.abort_log
        if blog != log[:len(blog)] or len(blog) > j:
            viol.append({'oracle': 'mpu.deny', 'site': site, 'cls': 'access_after_denial', 'tick': k,
                         'detail': '%s k=%d: device accesses before the abort %s; clean list %s' % (cls, j, blog[:8], log[:8])})
            break
        # (c) memory: denied bytes untouched (unless a read-only kind allowed earlier... never for writes), bytes outside the footprint untouched
        init = bytes(M.make_device(shifted['devices'][2]).memory_array)
        mem = tap.abort_mem
        allowed_bytes = set()
        for o, s, wbit in log[:j]:
            if wbit:
                allowed_bytes.update(range(o, o + s))
        changed = [x for x in range(len(init)) if init[x] != mem[x]]
        bad = [x for x in changed if x not in allowed_bytes]
        if bad:
            viol.append({'oracle': 'mpu.deny', 'site': site, 'cls': 'byte_changed_in_denied_region' if bad[0] + G.DATA >= bound else 'byte_changed_outside_footprint', 'tick': k,
                         'detail': '%s k=%d: byte %#x changed at the abort (%#x -> %#x)' % (cls, j, G.DATA + bad[0], init[bad[0]], mem[bad[0]])})
            break
        # (d) no base-register write-back, and for single-access instructions no register change at all
        pre, post = rec['pre'], rec['post']
        preR, postR = dict(zip(M.RNAMES, pre[0])), dict(zip(M.RNAMES, post[0]))
        from sim.models.banking import phys
        if isinstance(rn, str):
            base_name, in_list = rn, False          # SRS: the base is the named mode's banked SP
        else:
            base_name = phys(rn, mode) if rn < 15 else None
            in_list = _base_in_list(tap.op, rn)
        if base_name and not in_list and postR[base_name] != preR[base_name]:
            viol.append({'oracle': 'mpu.deny', 'site': site, 'cls': 'base_register_written_back', 'tick': k,
                         'detail': '%s (%#x) k=%d: base %s %#x -> %#x although the instruction aborted' % (cls, word, j, base_name, preR[base_name], postR[base_name])})
            break
        if len(log) == 1:
            chg = [nme for nme in M.RNAMES if nme not in ('PC', 'LRabt') and postR[nme] != preR[nme]]
            if chg:
                viol.append({'oracle': 'mpu.deny', 'site': site, 'cls': 'register_changed_by_aborted_access', 'tick': k, 'detail': '%s: %s changed' % (cls, chg)})
                break
        # (e) retry transparency (not for forms that load their own base register: what the retry then does is not defined here)
        if in_list:
            count('probe.base-in-list-skipped')
            continue
        if not b.cores[0].finished:
            viol.append({'oracle': 'mpu.retry', 'site': site, 'cls': 'not_finished_after_grant', 'tick': k, 'detail': '%s k=%d: program did not finish after grant+retry (%d grants, %d ticks)' % (cls, j, st['grants'], b.tick)})
            break
        if not in_list:
            fv = final_view(b, meta)
            if fv != c2['view']:
                d = [nme for nme, x, y in zip(('regs', 'cpsr', 'pc', 'memory'), fv, c2['view']) if x != y]
                det = ''
                if 'regs' in d:
                    det = ', '.join('r%d %#x vs %#x' % (i, fv[0][i], c2['view'][0][i]) for i in range(15) if fv[0][i] != c2['view'][0][i])
                viol.append({'oracle': 'mpu.retry', 'site': site, 'cls': 'retry_differs_from_never_denied_run', 'tick': k,
                             'detail': '%s (%#x) k=%d: after grant and retry %s differ from the never-denied run. %s' % (cls, word, j, d, det)})
                break
        count('probe.retries-completed')
    return {'violations': viol, 'cover': cover, 'stats': stats, 'ticks': ticks, 'digest': M.digest_of(sorted(cover))}


def _strip(cls):
    return cls[:-2] if cls[-2:] in ('A1', 'A2', 'T1', 'T2', 'T3', 'T4') else cls


def _is_unpriv(cls):
    c = cls.lower()
    return any(c.startswith(x) for x in ('ldrt', 'strt', 'ldrbt', 'strbt', 'ldrht', 'strht', 'ldrsbt', 'ldrsht'))


def _base_in_list(op, rn):
    regs = getattr(op, 'registers', None)
    if isinstance(regs, int):
        return bool((regs >> rn) & 1)
    for attr in ('t', 't2'):
        if getattr(op, attr, None) == rn:
            return True
    return False


# =================================================================== align

def gen_align(rng):
    thumb = rng.getrandbits(1)
    te = rng.getrandbits(1)
    mode = rng.choice(['usr', 'usr', 'sys', 'svc', 'svc', 'irq', 'fiq', 'und'])
    D = G.DATA + 0x400
    kind = rng.choice(['ldr', 'str', 'ldrh', 'strh', 'ldrd', 'strd', 'ldm', 'stm', 'push', 'pop', 'ldrex', 'strex', 'ldrexh', 'strexh', 'ldrexd', 'strexd'] + (['push_w', 'pop_w'] if thumb else []))
    rt, rn = rng.randrange(0, 6), 7
    mis = rng.choice([1, 2, 3])
    a_bit = 1
    wb = 0
    if kind in ('ldr', 'str'):
        size = 4
        off = 4 * rng.randrange(0, 8)
        p, w = rng.choice([(1, 0), (1, 1), (0, 0)])
        if thumb and (p, w) == (0, 0):
            w = 1                       # Thumb post-indexed form has W=1
        wb = int(w or not p)
        word = (T.ldst_t4(kind == 'ldr', rt, rn, off, p, 1, w, 2) if (p, w) != (1, 0) else (T.ldr_w if kind == 'ldr' else T.str_w)(rt, rn, off)) if thumb else A.ldst(kind == 'ldr', rt, rn, off, p=p, u=1, w=w)
        first = D + mis + (off if p else 0)
    elif kind in ('ldrex', 'strex', 'ldrexh', 'strexh', 'ldrexd', 'strexd'):
        # exclusive accesses: the address must be aligned to the size of the access (a doubleword for LDREXD/STREXD) whatever SCTLR.A says; a store-exclusive
        # that faults writes neither memory nor its status register
        size = {'h': 2, 'd': 8}.get(kind[-1], 4)
        mis = rng.randrange(1, size)
        if size == 2:
            mis = 1
        a_bit = rng.getrandbits(1)
        rd = 6
        if size == 8:
            rt &= ~1
            if rt == 0 and rng.random() < 0.3:
                rt = 2
        ld = kind.startswith('ldr')
        if thumb:
            word = {4: (0xE8500F00 | rn << 16 | rt << 12) if ld else (0xE8400000 | rn << 16 | rt << 12 | rd << 8),
                    2: (0xE8D00F5F | rn << 16 | rt << 12) if ld else (0xE8C00F50 | rn << 16 | rt << 12 | rd),
                    8: (0xE8D0007F | rn << 16 | rt << 12 | (rt + 1) << 8) if ld else (0xE8C00070 | rn << 16 | rt << 12 | (rt + 1) << 8 | rd)}[size]
        else:
            word = {4: (0xE1900F9F | rn << 16 | rt << 12) if ld else (0xE1800F90 | rn << 16 | rd << 12 | rt),
                    2: (0xE1F00F9F | rn << 16 | rt << 12) if ld else (0xE1E00F90 | rn << 16 | rd << 12 | rt),
                    8: (0xE1B00F9F | rn << 16 | rt << 12) if ld else (0xE1A00F90 | rn << 16 | rd << 12 | rt)}[size]
        first = D + mis
    elif kind in ('ldrh', 'strh'):
        size = 2
        mis = 1
        off = 2 * rng.randrange(0, 8)
        word = T.ldst_imm(kind, rt, rn, off // 2) if thumb else A.ldsth(kind, rt, rn, off)
        first = D + mis + off
    elif kind in ('ldrd', 'strd'):
        size = 4
        rt &= ~1
        off = 8 * rng.randrange(0, 4)
        word = T.ldstd(kind == 'ldrd', rt, rt + 1, rn, off // 4) if thumb else A.ldsth(kind, rt, rn, off)
        first = D + mis + off
        a_bit = rng.getrandbits(1)             # doubleword/multiple accesses are alignment-checked regardless of SCTLR.A
    elif kind in ('ldm', 'stm'):
        size = 4
        lst = rng.choice([0x03, 0x06, 0x0F, 0x15, 0x3F, 0x30])
        word = (T.ldstm_w(kind == 'ldm', rn, lst, 0, 1) if thumb else A.ldstm(kind == 'ldm', rn, lst, p=0, u=1, w=1))
        wb = 1
        first = D + mis
        a_bit = rng.getrandbits(1)
    elif kind in ('push_w', 'pop_w'):
        # 32-bit Thumb PUSH.W / POP.W with two or more registers (encoding T2): word-aligned accesses only
        size = 4
        lst = rng.choice([0x03, 0x06, 0x0F, 0x15, 0x3F, 0x30, 0x1100, 0x0180])
        rn = 13
        word = (0xE92D0000 | lst) if kind == 'push_w' else (0xE8BD0000 | lst)
        wb = 1
        n = bin(lst).count('1')
        first = D + mis - (4 * n if kind == 'push_w' else 0)
        a_bit = rng.getrandbits(1)
    else:
        size = 4
        lst = rng.choice([0x03, 0x06, 0x0F, 0x15, 0x3F, 0x30])
        rn = 13
        word = (T.push(lst) if kind == 'push' else T.pop(lst)) if thumb else (A.push(lst) if kind == 'push' else A.pop(lst))
        wb = 1
        n = bin(lst).count('1')
        first = D + mis - (4 * n if kind == 'push' else 0)
        a_bit = rng.getrandbits(1)
    regs = [rng.getrandbits(32) for _ in range(15)]
    regs[7] = D + mis
    regs[13] = D + mis if rn == 13 else D
    mpu = [(0, 0, 0)] * 12
    mpu[0] = (1 | 31 << 1, 0, 3 << 8)
    m_bit = rng.getrandbits(1)
    also_denied = bool(m_bit) and rng.random() < 0.4
    if 'ex' in kind:
        also_denied = False          # (the pseudocode of the exclusive loads translates the address - SetExclusiveMonitors() - before MemA[] checks its alignment: no order is asserted)
    if kind == 'push_w' and not a_bit:
        also_denied = False          # known finding (PUSH.W T2 goes byte-wise when SCTLR.A=0): keep its one signature, do not stack a denial on top
    if also_denied:
        # the misaligned address is ALSO denied by the MPU (no access / read-only / no region at all): the alignment fault has priority and is
        # reported with the unrounded address
        dk = rng.choice(['none', 'readonly', 'background'])
        if dk == 'background':
            mpu[0] = (1 | 16 << 1, 0, 3 << 8)                        # 128 KiB from 0: LOW + CODE
            mpu[7] = (1 | 11 << 1, G.STACKS, 3 << 8)
            mpu[8] = (1 | 7 << 1, G.INTC, 3 << 8)
        else:
            mpu[DREG] = (1 | 9 << 1, G.DATA + 0x400 - 0x200 if False else (G.DATA + 0x400) & ~0x3FF, (0 if dk == 'none' else 6) << 8)
    core, meta = _one_shot_case(rng, word, thumb, mode, te, regs, mpu, {}, arch=rng.choice([6, 7]), top=rng.random() < 0.1)   # ARMv6 with U=1: unaligned MemA accesses fault like on ARMv7
    core['regs']['sys']['sctlr'] = G.sctlr_value(m=m_bit, a=a_bit, u=1, te=te, v=0, br=0 if also_denied else 1, ee=(core['regs']['sys']['sctlr'] >> 25) & 1)
    return {'scenario': 'align', 'cores': [core], 'meta': meta, 'word': word, 'kind': kind, 'first': first, 'size': size, 'rn': rn, 'wb': wb, 'write': kind in ('str', 'strh', 'strd', 'stm', 'push', 'push_w', 'strex', 'strexh', 'strexd'),
            'events': [], 'max_ticks': 200, 'also_denied': also_denied}


def run_align(case):
    core, meta = case['cores'][0], case['meta']
    viol, cover = [], set()
    b, tap, st = run_oneshot(core, meta)
    viol.extend(b.violations)
    cls = tap.exec_cls or '?'
    site = case['kind']          # the generated instruction kind (stable under class renames), not the opcode class
    mode = M.MODES[meta['mode']]
    if not viol:
        if tap.abort_rec is None:
            a_now = (core['regs']['sys']['sctlr'] >> 1) & 1
            viol.append({'oracle': 'mpu.align', 'site': site, 'cls': 'missing_alignment_fault' if a_now else 'missing_alignment_fault_A0', 'tick': 0,
                         'detail': '%s (%#x) at misaligned %#x (size %d, SCTLR.A=%d): no abort' % (cls, case['word'], case['first'], case['size'], (core['regs']['sys']['sctlr'] >> 1) & 1)})
        else:
            a = tap.abort_state
            rec = tap.abort_rec
            cover.add('align|%s|%s|%s|%d' % (site, 'w' if case['write'] else 'r', meta['mode'], int(bool(case.get('also_denied')))))
            preR, postR = dict(zip(M.RNAMES, rec['pre'][0])), dict(zip(M.RNAMES, rec['post'][0]))
            from sim.models.banking import phys
            chg = [n for n in M.RNAMES if n not in ('PC', 'LRabt') and postR[n] != preR[n]]
            if MPU.dfsr_fs(a['dfsr']) != MPU.FS_ALIGNMENT:
                viol.append({'oracle': 'mpu.align', 'site': site, 'cls': 'dfsr_status', 'tick': 0, 'detail': 'DFSR %#x: FS %#x, expected alignment (1)' % (a['dfsr'], MPU.dfsr_fs(a['dfsr']))})
            elif a['dfar'] != case['first']:
                viol.append({'oracle': 'mpu.align', 'site': site, 'cls': 'dfar', 'tick': 0, 'detail': 'DFAR %#x, misaligned access at %#x' % (a['dfar'], case['first'])})
            elif ((a['dfsr'] >> 11) & 1) != int(case['write']):
                viol.append({'oracle': 'mpu.align', 'site': site, 'cls': 'dfsr_wnr', 'tick': 0, 'detail': 'WnR %d for %s' % ((a['dfsr'] >> 11) & 1, case['kind'])})
            elif tap.abort_log:
                viol.append({'oracle': 'mpu.align', 'site': site, 'cls': 'data_transferred', 'tick': 0, 'detail': 'device accesses %s before the alignment fault' % tap.abort_log[:4]})
            elif chg:
                viol.append({'oracle': 'mpu.align', 'site': site, 'cls': 'base_register_written_back' if phys(case['rn'], mode) in chg else 'register_changed_by_aborted_access',
                             'tick': 0, 'detail': '%s: %s changed although the access faulted' % (cls, chg)})
            elif not b.cores[0].finished and case['kind'] in ('ldr', 'str', 'ldrh', 'strh') and not case.get('also_denied'):
                viol.append({'oracle': 'mpu.retry', 'site': site, 'cls': 'not_finished_after_grant', 'tick': 0, 'detail': 'alignment fault: program did not finish after the handler cleared SCTLR.A'})
    b.stats['fault.align'] = 1
    return {'violations': viol, 'cover': cover, 'stats': b.stats, 'ticks': b.tick, 'digest': b.digest()}


# =================================================================== revoke

def gen_revoke(rng):
    mpu = [(0, 0, 0)] * 12
    mpu[0] = (1 | 31 << 1, 0, 3 << 8)
    mpu[DREG] = (0 | 7 << 1, P.DBASE, rng.choice([0, 0, 5, 6]) << 8)          # the main program's data page (256 B), initially not enabled
    swap = rng.choice([None, None, 'acr', 'all'])
    if swap:
        # two regions over the data page, the higher-numbered one permissive; the revocation EXCHANGES their programming (access control only, or
        # size/base/access control), the grant exchanges it back: the set of register values is the same before and after, only their places differ
        mpu[7] = (1 | 7 << 1, P.DBASE, rng.choice([0, 0, 5, 6]) << 8 | rng.getrandbits(6))
        mpu[8] = ((1 | 7 << 1, P.DBASE, 3 << 8 | rng.getrandbits(6)) if swap == 'acr' else (1 | 9 << 1, P.DBASE & ~0x3FF, 3 << 8 | rng.getrandbits(6)))
    core, meta = build_program_case(rng, allow=('alu', 'mem', 'mem', 'stack', 'loop', 'cond', 'it', 'multi'), extra_sys=dict(G.mpu_sys(mpu, nu=rng.getrandbits(1))), rec_data=False)
    core['regs']['sys']['sctlr'] = G.sctlr_value(m=1, a=0, u=1, te=meta['te'], v=0, br=1, ee=meta.get('ee', 0))
    n = fault_free_ticks(core, meta) or 300             # (a program that does not finish fault-free is reported by the run, not regenerated)
    events = []
    for _ in range(rng.choice([1, 1, 2, 3, 5])):
        t = rng.randrange(0, max(1, n))
        if swap:
            for j, nme in enumerate(('drsrs', 'drbars', 'dracrs')):
                if swap == 'all' or nme == 'dracrs':
                    events.append({'tick': t, 'core': 0, 'kind': 'sys', 'name': nme, 'index': 7, 'value': mpu[8][j], 'tag': 'mpu-swap-part'})
                    events.append({'tick': t, 'core': 0, 'kind': 'sys', 'name': nme, 'index': 8, 'value': mpu[7][j], 'tag': 'mpu-revoke' if nme == 'dracrs' else 'mpu-swap-part'})
            continue
        events.append({'tick': t, 'core': 0, 'kind': 'sys', 'name': 'drsrs', 'index': DREG, 'value': mpu[DREG][0] | 1, 'tag': 'mpu-revoke'})
    if rng.random() < 0.4:
        events.append({'tick': rng.randrange(0, max(1, n)), 'core': 0, 'kind': rng.choice(['irq', 'fiq'])})
    events.sort(key=lambda e: e['tick'])
    hl = sum(v[2] for v in meta['handlers'].values())
    return {'scenario': 'revoke', 'cores': [core], 'meta': meta, 'events': events, 'clean_ticks': n, 'swap': [list(mpu[7]), list(mpu[8])] if swap else None, 'max_ticks': n + (len(events) + 2) * (hl + 10) * 3 + 64}


def run_revoke(case):
    meta = case['meta']

    def go(events):
        b = Board(dict(case, events=events), [])
        mon = EntryMonitor(b, 0, report=True, oracle='mpu.entry_model')
        vr = ViewRecorder(meta)
        rc = ReturnChecker(mon, meta)
        arm = b.cores[0].arm
        TranslateTap(b, 0)
        intc = M.device_at(arm, G.INTC)

        def grant():
            r = arm.registers
            r.drsrs[DREG].value &= ~1
            if case.get('swap'):
                for i in (0, 1):
                    r.drsrs[7 + i].value, r.drbars[7 + i], r.dracrs[7 + i].value = case['swap'][i]
            b.count('fault.mpu-grant')
        intc.on_grant = grant
        b.observers = [mon, vr, rc, RangeMonitor(report=False)]
        b.run()
        return b, vr
    bA, vA = go([])
    bB, vB = go(case['events'])
    b = bB
    b.violations = bA.violations + bB.violations
    if not b.violations:
        # views: ticks of the main program that completed (an aborted attempt is re-executed and appears once more)
        a_views = vA.views
        b_views = [v for v in vB.views if (v[2] & 0x1F) == M.MODES[meta['mode']]]
        if not bA.cores[0].finished:
            b.violate('harness', 'revoke', 'clean_run_did_not_finish', '')
        elif not bB.cores[0].finished:
            b.violate('mpu.retry', 'revoke', 'not_finished_after_grant', 'program did not finish within %d ticks (%d revocations, %d grants)' % (
                bB.tick, bB.stats.get('fault.mpu-revoke', 0), bB.stats.get('fault.mpu-grant', 0)))
        elif a_views != b_views:
            n = min(len(a_views), len(b_views))
            i = next((j for j in range(n) if a_views[j] != b_views[j]), n)
            x = a_views[i] if i < len(a_views) else None
            y = b_views[i] if i < len(b_views) else None
            d = [nme for nme, p, q in zip(('pre_pc', 'regs', 'cpsr', 'pc', 'data', 'stack'), x, y) if p != q] if x and y else ['length']
            b.violate('mpu.retry', 'revoke', 'retry_differs_from_never_denied_run', 'main instruction #%d at %#x: %s differ' % (i, (x or y)[0], d))
    if bB.stats.get('fault.mpu-grant'):
        b.cover.add('revoke|%s|%s|%d|ap%d' % (meta['mode'], 'T' if meta['thumb'] else 'A', meta['te'], (case['cores'][0]['regs']['sys']['dracrs'][DREG] >> 8) & 7))
    return {'violations': b.violations, 'cover': b.cover, 'stats': b.stats, 'ticks': bA.tick + bB.tick, 'digest': b.digest()}


# =================================================================== dispatch

def witness_pushw_case():
    """deterministic witness of the known finding: PUSH.W {r0-r3} with SP = DATA+0x403, SCTLR.A=0, U=1, ARMv7, Supervisor mode"""
    rng = random.Random(0)
    D = G.DATA + 0x400
    regs = [0x11 * i for i in range(15)]
    regs[13] = D + 3
    mpu = [(0, 0, 0)] * 12
    mpu[0] = (1 | 31 << 1, 0, 3 << 8)
    core, meta = _one_shot_case(rng, 0xE92D000F, 1, 'svc', 0, regs, mpu, {}, arch=7)
    core['regs']['sys']['sctlr'] = G.sctlr_value(m=0, a=0, u=1, te=0, v=0, br=1)
    core['regs']['cpsr'] &= ~0x200
    return {'scenario': 'align', 'cores': [core], 'meta': meta, 'word': 0xE92D000F, 'kind': 'push_w', 'first': D + 3 - 16, 'size': 4, 'rn': 13, 'wb': 1, 'write': True,
            'events': [], 'max_ticks': 200}


# =================================================================== deny-sweep

SW_DENY = G.DATA + 0x800          # [DATA+0x800, DATA+0x1000): no access for anybody
SW_PRIV = G.DATA + 0x400          # [DATA+0x400, DATA+0x500): privileged-only


def gen_deny_sweep(item, rng, tier):
    from scenarios import c18
    src = c18.gen_case({k: v for k, v in dict(item, k=item['sub']).items() if k != 'sub'}, rng, tier)['cores'][0]
    thumb = src['force'].get('thumb', 1)
    cfg = {'arch_version': rng.choice([6, 7, 7]), 'have_security_ext': False, 'have_virt_ext': False, 'have_lpae': False, 'memory_system_architecture': 'PMSA',
           'number_of_mpu_regions': 12}
    cfg.update(G.impdef_switches(rng))
    mpu = [(0, 0, 0)] * 12
    mpu[0] = (1 | 31 << 1, 0, 3 << 8)
    mpu[DREG] = (1 | 10 << 1, SW_DENY, rng.getrandbits(6) | rng.getrandbits(1) << 12)          # AP = 0
    mpu[DREG - 1] = (1 | 7 << 1, SW_PRIV, 1 << 8 | rng.getrandbits(6))                           # AP = 1
    devices = G.std_devices(high=False)
    G.set_data(devices[2], 0x700, bytes(rng.getrandbits(8) for _ in range(0x200)))
    mode = rng.choice(['usr', 'svc', 'svc', 'sys', 'irq'])
    nullguard = rng.random() < 0.35
    if nullguard:
        # a NULL guard: the first 32 bytes of the address space are a no-access region of the highest priority (vectors high, so that nothing is ever
        # fetched there); pointers at and just above 0, so that descending transfers end exactly at address 0 and ascending ones start there
        mpu[DREG + 1] = (1 | 4 << 1, 0, rng.getrandbits(6))
    sys = dict(G.mpu_sys(mpu, nu=rng.getrandbits(1)))
    # (ARMv6 configurations half of the time in legacy alignment mode, SCTLR.U = 0: an unaligned access is made at the aligned-down address)
    sys['sctlr'] = G.sctlr_value(m=1, a=0, u=0 if (cfg['arch_version'] == 6 and rng.random() < 0.5) else 1, te=thumb, v=int(nullguard), br=1, ee=0)
    regs = {'cpsr': G.random_cpsr(rng, cfg, mode=mode, thumb=thumb, e=0) | 0xC0, 'pc': G.CODE, 'sys': sys, 'R': G.random_regfile(rng, cfg), 'spsr': G.random_spsrs(rng, cfg, valid=True)}
    # pointers around the lower edge of the denied block: word-aligned, so that multi-word transfers start allowed and run into it, or start inside it
    ptrs = [SW_DENY + 4 * d for d in (-8, -4, -3, -2, -1, 0, 0, 1, 2, 4)] + [SW_DENY + 0x7F8, SW_DENY + 0x7FC, 4, 8, 0x10, SW_PRIV + 0x10, SW_PRIV + 0x41]
    if not (sys['sctlr'] >> 22) & 1:
        ptrs = ptrs + [SW_PRIV + 1, SW_PRIV + 0x42, SW_PRIV + 0x83, SW_PRIV + 0x21, SW_DENY + 3]
    if nullguard:
        ptrs = ptrs[:12] + [0, 0, 4, 8, 0xC, 0x1C, 0x20, 0x24, 0x3C, 1, 0xFFFFFFFC]
    words = list(src['words'])
    if not (sys['sctlr'] >> 22) & 1 and not thumb:
        # legacy alignment mode: a sixth of the words replaced by the unprivileged load/store forms (word and halfword), which the sweep itself meets rarely
        for i in range(0, len(words), 6):
            rn_, rt_ = rng.randrange(0, 13), rng.randrange(0, 13)
            words[i] = rng.choice([0xE4A00000, 0xE4B00000, 0xE4200000, 0xE4300000]) | rn_ << 16 | rt_ << 12 | rng.choice([0, 4, 1]) if rng.random() < 0.7 else \
                rng.choice([0xE0E000B0, 0xE0F000B0]) | rn_ << 16 | rt_ << 12 | rng.choice([0, 2])
        src = dict(src, words=words)
    force = {'it': 0, 'ctx': 9, 'thumb': thumb, 'ptr_regs': ptrs}
    core = {'config': cfg, 'devices': devices, 'regs': regs, 'words': src['words'], 'force': force, 'no_poke': []}
    return {'scenario': 'deny_sweep', 'nullguard': nullguard, 'cores': [core], 'events': [], 'max_ticks': len(src['words']) + 2, 'stop_at_done': False, 'thumb': thumb}


class DenySweepObserver:
    def __init__(self, mon, regions):
        self.mon, self.regions, self.mem = mon, regions, None

    def on_tick(self, b, rec):
        arm = b.cores[0].arm
        mem = M.peek(arm, SW_DENY, 0x800)
        self.mem = getattr(b, 'pre_mem', None)          # taken after the board placed this tick's instruction word (the PC may point into the block)
        if self.mem is not None and mem != self.mem and not b.violations:
            k = next(i for i in range(0x800) if mem[i] != self.mem[i])
            b.violate('mpu.deny', type(arm.executed_opcode).__name__, 'denied_bytes_written', 'word %#x (pc %#x, cpsr %#x) changed byte +%#x of the no-access block' % (
                arm.opcode, rec['pre_pc'], rec['pre'][1], k))
        nmem = getattr(b, 'pre_null', None)
        if nmem is not None and not b.violations and M.peek(arm, 0, 32) != nmem:
            b.violate('mpu.deny', type(arm.executed_opcode).__name__, 'denied_bytes_written', 'word %#x (pc %#x, cpsr %#x) changed the no-access block at address 0' % (
                arm.opcode, rec['pre_pc'], rec['pre'][1]))
        pmem = getattr(b, 'pre_priv', None)
        if pmem is not None and rec['what'] == 'step' and not b.violations:
            now = M.peek(arm, SW_PRIV, 0x100)
            cls_ = type(arm.executed_opcode).__name__
            if now != pmem and ((rec['pre'][1] & 0x1F) == 0x10 or (_is_unpriv(cls_) and not rec['exc'] and arm.opcode == getattr(b, 'placed_word', arm.opcode))):
                # the privileged-only block: nothing executed in User mode, and no unprivileged load/store form executed in any mode, may write it
                k = next(i for i in range(0x100) if now[i] != pmem[i])
                b.violate('mpu.deny', _strip(cls_), 'privonly_bytes_written', 'word %#x (pc %#x, cpsr %#x, %s) changed byte +%#x of the privileged-only block' % (
                    arm.opcode, rec['pre_pc'], rec['pre'][1], cls_, k))
        if rec['what'] != 'step' or rec['nie'] or rec['exc']:
            return
        kinds = [k for t, k in self.mon.taken if t == rec['tick']]
        pc0 = rec['pre_pc']
        if (SW_DENY <= pc0 < SW_DENY + 0x800 or (SW_PRIV <= pc0 < SW_PRIV + 0x100 and (rec['pre'][1] & 0x1F) == 0x10)) and not any(k in ('dabt', 'pabt') for k in kinds):
            # an instruction fetch is an access like any other: from a block the current privilege may not read it must abort
            b.violate('mpu.deny', 'fetch', 'fetch_not_denied', 'instruction at %#x executed in mode %#x although the MPU denies that address (entries taken: %s)' % (
                pc0, rec['pre'][1] & 0x1F, kinds))
            return
        if kinds != ['dabt']:
            return
        r = arm.registers
        name = type(arm.executed_opcode).__name__
        site = name[:-2] if name[-2:] in ('A1', 'A2', 'T1', 'T2', 'T3', 'T4') else name
        fs = MPU.dfsr_fs(r.dfsr.value)
        if fs == MPU.FS_ALIGNMENT:
            b.cover.add('~deny-sweep-align')
            return
        priv = (rec['pre'][1] & 0x1F) != 0x10
        dec, _ = MPU.decide(self.regions, 1, 1, r.dfar, priv, bool((r.dfsr.value >> 11) & 1))
        if dec == 'ok' and priv and _is_unpriv(name):
            dec, _ = MPU.decide(self.regions, 1, 1, r.dfar, False, bool((r.dfsr.value >> 11) & 1))       # LDRT/STRT-family: User permissions in a privileged mode
        if dec == 'ok':
            b.violate('mpu.deny', site, 'dfar_not_denied', '%s (word %#x) aborted with DFAR %#x (DFSR %#x), which the MPU model allows' % (name, arm.opcode, r.dfar, r.dfsr.value))
            return
        w = arm.opcode
        if arm.opcode_len == 32:
            rn = (w >> 16) & 0xF
            thumb = b.case['thumb']
            ldm_with_base = ((w >> 25) & 7 == 4 and (w >> 20) & 1 and (w >> rn) & 1) if not thumb else ((w >> 25) == 0x74 and (w >> 22) & 1 == 0 and (w >> 20) & 1 and (w >> rn) & 1)
            if rn != 15 and not ldm_with_base:
                from sim.models.banking import phys
                nme = phys(rn, rec['pre'][1] & 0x1F)
                i = M.RNAMES.index(nme)
                if nme != 'LRabt' and rec['post'][0][i] != rec['pre'][0][i]:          # (LR_abt is written by the abort entry itself)
                    b.violate('mpu.deny', site, 'base_register_written_back', '%s (word %#x): %s %#x -> %#x although the instruction aborted (DFAR %#x)' % (
                        name, w, nme, rec['pre'][0][i], rec['post'][0][i], r.dfar))
                    return
        b.cover.add('deny-sweep|%s|%s' % (site, 'w' if (r.dfsr.value >> 11) & 1 else 'r'))


def run_deny_sweep(case):
    from sim.stream import StreamBoard

    class DenyBoard(StreamBoard):
        pre_mem = None
        pre_priv = None
        pre_null = None

        def after_poke(self, ci):
            self.pre_mem = M.peek(self.cores[ci].arm, SW_DENY, 0x800)
            self.pre_priv = M.peek(self.cores[ci].arm, SW_PRIV, 0x100)
            self.pre_null = M.peek(self.cores[ci].arm, 0, 32) if case.get('nullguard') else None
    b = DenyBoard(case, [])
    TranslateTap(b, 0)
    mon = EntryMonitor(b, 0, report=False)
    b.observers = [mon, DenySweepObserver(mon, MPU.regions_from_arm(b.cores[0].arm))]
    b.run()
    b.count('fault.mpu-deny-sweep', b.tick)
    return {'violations': b.violations, 'cover': b.cover, 'stats': b.stats, 'ticks': b.tick, 'digest': b.digest()}


def gen(item, rng, tier):
    if item['k'] == 'deny-sweep':
        return _with_bystander(gen_deny_sweep(item, rng, tier), rng)
    if item['k'] == 'witness-pushw':
        return witness_pushw_case()
    if item['k'] == 'translate':
        return gen_translate(rng)
    return _with_bystander({'deny': gen_deny, 'align': gen_align, 'revoke': gen_revoke}[item['k']](rng), rng)


def _with_bystander(case, rng):
    if rng.random() < 0.15 and case.get('cores'):
        core = case['cores'][0]
        core['bystander'] = dict(core.get('config') or {}, number_of_mpu_regions=rng.choice([4, 4, 1, 8, 16]))
    return case


def run(case):
    p0 = M.env.print_count[0]
    res = {'translate': run_translate, 'deny_at_k': run_deny, 'align': run_align, 'revoke': run_revoke, 'deny_sweep': run_deny_sweep}[case['scenario']](case)
    res['stats']['prints'] = M.env.print_count[0] - p0
    res['stats']['probe.scenario-' + case['scenario']] = 1
    res['interesting'] = bool(res['violations'])
    return res


def sample(case, res):
    s = case['scenario']
    d = {'scenario': s, 'violations': res['violations'][:2], 'ticks': res['ticks']}
    if s == 'translate':
        d.update(regions=[[hex(x) for x in r] for r in case['regions'][:6]], m=case['m'], br=case['br'], probes=[[hex(p[0]), p[1], p[2]] for p in case['probes'][:6]])
    elif s == 'deny_at_k':
        d.update(word=hex(case['word']), thumb=case['meta']['thumb'], mode=case['meta']['mode'], deny_kind=case['deny_kind'], shape=case['shape'],
                 regs={k: hex(v) for k, v in list(case['cores'][0]['regs']['R'].items())[:16]})
    elif s == 'align':
        d.update(word=hex(case['word']), kind=case['kind'], first=hex(case['first']), mode=case['meta']['mode'], thumb=case['meta']['thumb'])
    elif s == 'deny_sweep':
        c = case['cores'][0]
        d.update(thumb=case['thumb'], config=c['config'], start_cpsr=hex(c['regs']['cpsr']), n_words=len(c['words']), words=['%08x' % w for w in c['words'][:8]])
    else:
        d.update(meta={k: v for k, v in case['meta'].items() if k != 'handlers'}, events=case['events'][:6], code=case['cores'][0]['devices'][1]['data']['0'][:120])
    return d


def shrink(case):
    s = case['scenario']
    if s == 'deny_sweep':
        # the register reload is a function of the position in the word list: keep the prefix up to the failing tick
        words = case['cores'][0]['words']
        res = run(case)
        if res['violations']:
            t = res['violations'][0].get('tick', len(words))
            if t + 1 < len(words):
                yield dict(case, cores=[dict(case['cores'][0], words=words[:t + 1])], max_ticks=t + 3)
        return
    if s == 'translate':
        p = case['probes']
        for i in range(len(p)):
            if len(p) > 1:
                yield dict(case, probes=p[:i] + p[i + 1:])
        regs = case['regions']
        for i in range(len(regs)):
            if regs[i][0] & 1:
                yield dict(case, regions=regs[:i] + [[regs[i][0] & ~1, regs[i][1], regs[i][2]]] + regs[i + 1:])
    elif s == 'revoke':
        ev = case['events']
        for i in range(len(ev)):
            yield dict(case, events=ev[:i] + ev[i + 1:])
