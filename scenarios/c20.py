"""C20 — determinism and isolation.

Scenario 'replay': one core, stream program with faults; at a seeded tick the run is (a) deep-copied, (b) rebuilt in a
fresh instance from architectural state + memory only, and both are continued side by side with the original for k
ticks; (c) the whole history is run twice.  Traces of complete state must agree.

Scenario 'interleave': 2..4 instances with their own programs and fault schedules are constructed and stepped in one
process under a seeded schedule (construction events interleaved with steps).  Each instance's full-state trace must
equal the trace it produces alone in a pristine process (sim/solo.py) in which no other instance ever exists."""
import copy
import os

from sim import env, gen as G, machine as M, solo
from sim.stream import StreamBoard

PROPERTY = 'C20'
LEVEL = 'exploration'
BUDGET_S = {'quick': 240, 'thorough': 3000}
RULE = ("Runs derived from (VERIF_SEED, index). 'interleave' runs: 2-4 instances (regimes same / mixed+switch / mixed), seeded "
        "schedule of constructions and steps (uniform, bursts, alternation, late construction), each instance's per-tick "
        "full-state trace compared with its solo trace from a pristine forked process. 'replay' runs: snapshot tick s, deepcopy "
        "and rebuilt-from-architectural-state instances continued for k ticks against the original (lock-step, original k ticks ahead, or copies ahead; "
        "data device sometimes 1-2 MiB), plus a second complete run. "
        "distinct_nontrivial = distinct schedule hashes of interleave runs in which at least two instances each executed >= 20 "
        "ticks, counted per regime, plus distinct (snapshot tick bucket, executed-opcode-class) pairs of replay runs.")
ASSUMPTIONS = [
    "solo baselines run in a process forked from a zygote that never constructed an instance (armulator imported, configuration singleton empty)",
    "regime 'mixed' (different configuration files, no workaround) is a known finding on this tree: the module-level configuration singleton is "
    "overwritten by the last constructor; regime 'mixed+switch' re-points the singleton before every step and must be exact",
    "full-state digest = every attribute of Registers, wait flags, per-step bookkeeping and BLAKE2 of every device",
]

WITNESS_MIXED = 'witness-mixed'


def plan(tier, seed):
    n_int, n_rep = (900, 800) if tier == 'quick' else (60000, 50000)
    items = [{'k': WITNESS_MIXED}]
    for i in range(n_int):
        items.append({'k': 'interleave', 'regime': ('same', 'mixed+switch', 'mixed')[i % 3]})
    items += [{'k': 'replay'}] * n_rep
    # long-haul replays: tens of thousands of steps before and after the snapshot (how MUCH was executed before must not matter either)
    items += [{'k': 'longhaul'}] * (8 if tier == 'quick' else 400)
    # rolling rebuilds: at EVERY tick of a window a brand-new instance is built from the architectural state and memory alone and both take the
    # same step (hidden per-step state that a rebuilt instance cannot have is exposed at whichever tick it matters, not only at a lucky snapshot)
    items += [{'k': 'rolling'}] * (200 if tier == 'quick' else 9000)
    # pristine rebuilds: like 'rolling', but the rebuilt instance lives in a freshly forked pristine process (no instance ever existed there, no
    # instruction was ever executed): whatever the history left behind OUTSIDE the instance - module-level caches, class attributes, mutable
    # default arguments - is absent there, so a step that depends on it shows
    items += [{'k': 'pristine'}] * (60 if tier == 'quick' else 3000)
    # hash-seed runs: the same case executed in fresh interpreters under other PYTHONHASHSEED values (hash randomisation is the one source of
    # nondeterminism a pure-Python library can pick up without importing anything)
    items += [{'k': 'hashseed'}] * (16 if tier == 'quick' else 600)
    # kinds interleaved evenly over the plan (a run cut short by its time budget still holds every kind in proportion); the witness stays first
    by = {}
    for it in items[1:]:
        by.setdefault(it['k'] + it.get('regime', ''), []).append(it)
    keyed = []
    for k in sorted(by):
        n = len(by[k])
        keyed += [((j + 0.5) / n, k, j) for j in range(n)]
    keyed.sort()
    return items[:1] + [by[k][j] for _, k, j in keyed]


# ------------------------------------------------------------------ generation

def _simple_regime(rng, cfg):
    thumb = rng.getrandbits(1)
    cpsr = G.random_cpsr(rng, cfg, thumb=thumb, mode=rng.choice(['usr', 'svc', 'sys', 'irq', 'und', 'abt']), e=None)
    sys = {'sctlr': G.sctlr_value(m=int(cfg['memory_system_architecture'] == 'PMSA' and rng.random() < 0.5), a=int(rng.random() < 0.2),
                                 u=rng.getrandbits(1), te=rng.getrandbits(1), v=int(rng.random() < 0.2), br=1, tre=1, ve=int(rng.random() < 0.3))}
    if cfg['memory_system_architecture'] == 'PMSA':
        regs = G.random_mpu(rng, cfg['number_of_mpu_regions'])
        if regs:
            regs[0] = (1 | 31 << 1, 0, 3 << 8)
        sys.update(G.mpu_sys(regs, nu=rng.getrandbits(1)))
    return {'cpsr': cpsr, 'sys': sys, 'R': G.random_regfile(rng, cfg), 'spsr': G.random_spsrs(rng, cfg)}


def _deny_core(rng, cfg, nt):
    """the set-up of C14's deny sweep as a C20 core: PMSA, MPU on, a no-access and a privileged-only block in the data page, every register
    re-aimed before each tick at the (also unaligned) edges of those blocks, load/store-heavy words: accesses that abort half-way through"""
    from scenarios import c14
    thumb = rng.getrandbits(1)                 # (the configuration is used as it is: instances of one run may have to share it)
    mpu = [(0, 0, 0)] * cfg['number_of_mpu_regions']
    mpu[0] = (1 | 31 << 1, 0, 3 << 8)
    mpu[c14.DREG] = (1 | 10 << 1, c14.SW_DENY, rng.getrandbits(6))
    mpu[c14.DREG - 1] = (1 | 7 << 1, c14.SW_PRIV, 1 << 8 | rng.getrandbits(6))
    devices = G.std_devices()
    G.set_data(devices[2], 0x700, bytes(rng.getrandbits(8) for _ in range(0x200)))
    sys = dict(G.mpu_sys(mpu, nu=rng.getrandbits(1)))
    sys['sctlr'] = G.sctlr_value(m=1, a=0, u=1, te=thumb, v=0, br=1, ee=0)
    regs = {'cpsr': G.random_cpsr(rng, cfg, mode=rng.choice(['usr', 'svc', 'svc', 'sys', 'irq']), thumb=thumb, e=0) | 0xC0, 'pc': G.CODE, 'sys': sys,
            'R': G.random_regfile(rng, cfg), 'spsr': G.random_spsrs(rng, cfg, valid=True)}
    ptrs = [c14.SW_DENY + d for d in (-32, -16, -12, -8, -4, -3, -2, -1, 0, 1, 4)] + [c14.SW_DENY + 0x7FD, c14.SW_DENY + 0x7FE, 8, 0x10, c14.SW_PRIV - 2, c14.SW_PRIV + 0x41, c14.SW_PRIV + 0xFE]
    words = []

    def holder(pos, values, regs=range(8)):
        # (the board re-aims every register before each tick as a function of the position: which register holds one of 'values' at tick 'pos')
        for i in regs:
            if ptrs[(pos * 7 + i * 5 + (pos >> 3)) % len(ptrs)] in values:
                return i
        return None
    while len(words) < nt:
        r_ = rng.random()
        if thumb and r_ < 0.12:
            # straddle: a BX to the last word in front of the no-access block, ONE 16-bit instruction there (half of the time a load multiple with its
            # base in the list), then a 32-bit instruction whose second halfword lies inside the block: the fetch aborts half-way, in the step right
            # after that instruction
            pos = len(words)
            rb = holder(pos, (c14.SW_DENY - 3,))
            rm = holder(pos + 1, (c14.SW_DENY - 32, c14.SW_DENY - 16, c14.SW_DENY - 12, c14.SW_DENY - 8))
            if rb is not None:
                if rm is not None and rng.random() < 0.6:
                    mid = 0xC800 | rm << 8 | 1 << rm | rng.choice([0, 1 << ((rm + 1) % 8), 1 << ((rm + 3) % 8)])
                else:
                    mid = rng.choice([0xBF00, 0x1C40, rng.randrange(0x5000, 0xA000), 0xB400 | rng.getrandbits(8), 0xBC00 | rng.getrandbits(8)])
                words += [(0x4700 | rb << 3) << 16 | 0xBF00, mid << 16 | 0xBF00, rng.choice([0xF1000000, 0xF8D00000, 0xEA4F0000, 0xF3AF8000]) | rng.getrandbits(12)]
                continue
        if r_ < 0.6:
            w = c14.ldst_word(rng, thumb)
            words.append(G._t16(w) if thumb else w)
        elif r_ < 0.7:
            words += G.macro(rng, thumb)
        else:
            words.append(G.stream_word(rng, float(thumb)))
    events = [{'tick': rng.randrange(1, nt), 'core': 0, 'kind': rng.choice(['irq', 'fiq'])} for _ in range(rng.randrange(0, 3))]
    events.sort(key=lambda e: e['tick'])
    return {'config': cfg, 'devices': devices, 'regs': regs, 'words': words[:nt], 'force': {'it': 0, 'ctx': 9, 'thumb': thumb, 'ptr_regs': ptrs}, 'events': events, 'no_poke': []}


def _core(rng, cfg, nt):
    if rng.random() < 0.2 and cfg['memory_system_architecture'] == 'PMSA' and not cfg.get('have_virt_ext') and cfg.get('number_of_mpu_regions', 0) >= 12:
        return _deny_core(rng, cfg, nt)
    core = _core0(rng, cfg, nt)
    if rng.random() < 0.3:
        # overlapping windows: a small overlay listed before the data page it covers, another over a piece of the code page (which device answers
        # an address is a function of the list order alone - never of which device answered last)
        ov = {'kind': 'ram', 'begin': G.DATA + 0x300, 'end': G.DATA + 0x500}
        G.set_data(ov, 0, bytes(rng.getrandbits(8) for _ in range(0x200)))
        cov = {'kind': 'ram', 'begin': G.CODE + 0x40, 'end': G.CODE + 0x80}
        core['devices'][:0] = [ov, cov]
    return core


def _core0(rng, cfg, nt):
    devices = G.std_devices()
    G.set_data(devices[2], 0x3C0, bytes(rng.getrandbits(8) for _ in range(0x80)))
    G.host_call_blocks(devices[2])
    regs = _simple_regime(rng, cfg)
    regs['pc'] = G.CODE + 4 * rng.randrange(0, 64)
    full = cfg['memory_system_architecture'] == 'VMSA' and rng.random() < 0.5
    if full:
        # the complete translation set-up of the C18 streams: MMU on, tables with every memory-type selector, programs also running from the
        # page-mapped window (translation state is per-instance state like any other)
        from scenarios import c18
        tables = {'kind': 'ram', 'begin': c18.TABLES, 'end': c18.TABLES + c18.TABLES_SZ}
        c18._vmsa_tables(rng, tables, 'identity')
        devices += [tables, {'kind': 'ram', 'begin': c18.WIN, 'end': c18.WIN + 0x4000}]
        regs = c18.regime(rng, cfg, True)
        regs['sys']['sctlr'] |= 1 | 1 << 28                      # M, TRE
        regs['sys']['ttbcr'] = 0
        regs['sys']['ttbr0_64'] = c18.TABLES
        regs['sys']['dacr'] = rng.choice([0x55555555, 0xFFFFFFFF])
        regs['pc'] = rng.choice([G.CODE, c18.WIN + 0x1000 * rng.randrange(4), c18.WIN + 0x1000 * rng.randrange(4)]) + 4 * rng.randrange(0, 64)
        ptrs = rng.sample(range(13), 5)
        for i in ptrs:
            regs['R']['R%dusr' % i] = c18.WIN + 0x1000 * rng.randrange(4) + rng.choice([0x101, 0x202, 0x303, 0x100, 0x3C1, 0x7FE])     # (mostly unaligned) pointers into the window
        regs['sys']['sctlr'] &= ~(1 << 1 | 1 << 29)              # A=0, AFE=0: unaligned accesses and plain AP checks
    tb = rng.random()
    words = []
    for _ in range(nt):
        if words and rng.random() < 0.15:
            # the same encoding again, later, in whatever context the run has reached by then (other IT position, flags, mode):
            # state captured at an earlier execution of a word must not leak into a later one
            words.append(rng.choice(words[-12:]))
            continue
        if rng.random() < 0.08:
            words += G.macro(rng, rng.random() < tb)       # exclusive pairs, IT blocks, SRS/RFE, PUSH/POP ... (state that spans instructions)
            continue
        if rng.random() < 0.75:
            th = rng.random() < tb
            w = G.vocab_words(rng, th)
            if th and w <= 0xFFFF:
                w = w << 16 | 0xBF00
        else:
            w = G.stream_word(rng, tb)
        words.append(w)
    words = words[:nt]
    if full:
        # a third of the words become loads/stores through the window pointers (byte-wise unaligned accesses to pages of every memory type)
        from sim.asm import A, T
        for i in range(len(words)):
            if rng.random() < 0.33:
                rn, rt, ld, off = rng.choice(ptrs), rng.randrange(0, 13), rng.getrandbits(1), 4 * rng.randrange(0, 8)
                words[i] = rng.choice([A.ldst(ld, rt, rn, off), A.ldsth('ldrh' if ld else 'strh', rt, rn, off)]) if (regs['cpsr'] >> 5) & 1 == 0 else \
                    rng.choice([(T.ldr_w if ld else T.str_w)(rt, rn, off), G._t16(T.ldst_imm('ldr' if ld else 'str', rt & 7, rn & 7, off // 4))])
    events = []
    for _ in range(rng.randrange(0, max(1, nt // 20)) if rng.random() > 0.25 else 0):
        k = rng.random()
        t = rng.randrange(1, nt)
        if k < 0.35:
            events.append({'tick': t, 'core': 0, 'kind': 'irq'})
        elif k < 0.6:
            events.append({'tick': t, 'core': 0, 'kind': 'fiq'})
        elif k < 0.7:
            events.append({'tick': t, 'core': 0, 'kind': 'reset'})
        elif k < 0.8:
            events.append({'tick': t, 'core': 0, 'kind': 'regswap'})       # the register file replaced by a deep copy of itself (a restored checkpoint)
        else:
            events.append({'tick': t, 'core': 0, 'kind': 'regime', 'regs': _simple_regime(rng, cfg)})
    if full:
        events = [e for e in events if e['kind'] in ('irq', 'fiq', 'regswap')]          # keep the translation regime for the whole run
    events.sort(key=lambda e: e['tick'])
    return {'config': cfg, 'devices': devices, 'regs': regs, 'words': words, 'force': None, 'events': events, 'no_poke': [0x50000] if full else []}


def _cfg(rng):
    return G.random_config(rng, allow_virt=True, allow_lpae=False, archs=(6, 7, 7, 5), extras=True)


def _schedule(rng, n, lens):
    """list of actions: ('c', i) construct instance i, ('s', i) one tick of instance i"""
    style = rng.choice(['uniform', 'bursts', 'alternate', 'late', 'all-first'])
    remaining = list(lens)
    created = [False] * n
    acts = []
    if style == 'all-first':
        order = list(range(n))
        rng.shuffle(order)
        for i in order:
            acts.append(['c', i])
            created[i] = True
    if style == 'late':
        # one instance runs to completion before the others are even constructed
        i0 = rng.randrange(n)
        acts.append(['c', i0])
        created[i0] = True
        acts += [['s', i0]] * remaining[i0]
        remaining[i0] = 0
    while any(remaining):
        live = [i for i in range(n) if remaining[i]]
        i = rng.choice(live)
        if not created[i]:
            acts.append(['c', i])
            created[i] = True
            continue
        if style == 'bursts':
            k = min(remaining[i], rng.randrange(1, 40))
        elif style == 'alternate':
            k = 1
            i = live[len(acts) % len(live)]
            if not created[i]:
                acts.append(['c', i])
                created[i] = True
                continue
        else:
            k = 1
        acts += [['s', i]] * k
        remaining[i] -= k
    for i in range(n):
        if not created[i]:
            acts.append(['c', i])
    return style, acts


def witness_mixed_case():
    """deterministic two-instance case: A (PMSA, ARMv6, unaligned LDR rotates) is constructed first, then B (ARMv7,
    where the same LDR faults or is done bytewise) — the last constructor's configuration governs A."""
    cfgA = {'arch_version': 6, 'have_security_ext': True, 'have_virt_ext': False, 'memory_system_architecture': 'PMSA', 'have_lpae': False, 'number_of_mpu_regions': 12}
    cfgB = {'arch_version': 7, 'have_security_ext': False, 'have_virt_ext': False, 'memory_system_architecture': 'VMSA', 'have_lpae': False, 'number_of_mpu_regions': 12}
    from sim.asm import A
    cores = []
    for cfg in (cfgA, cfgB):
        devices = G.std_devices()
        G.set_data(devices[2], 0x400, bytes(range(1, 33)))
        regs = {'cpsr': 0x13, 'pc': G.CODE, 'sys': {'sctlr': G.sctlr_value(m=0, a=0, u=0, te=0)},
                'R': {'R1usr': G.DATA + 0x401, 'R2usr': G.DATA + 0x410}}
        words = [A.mov_imm(0, 1), A.ldr(3, 1, 0), A.str_(3, 2, 0), A.dp_reg('mov', 15, 0, 2), A.NOP, A.NOP]
        cores.append({'config': cfg, 'devices': devices, 'regs': regs, 'words': words, 'force': None, 'events': []})
    acts = [['c', 0], ['c', 1]] + [['s', 0], ['s', 1]] * 6
    return {'scenario': 'interleave', 'regime': 'mixed', 'style': 'witness', 'cores': cores, 'actions': acts}


def gen(item, rng, tier):
    if item['k'] == WITNESS_MIXED:
        return witness_mixed_case()
    if item['k'] == 'interleave':
        n = rng.choice([2, 2, 3, 4])
        regime = item['regime']
        base = _cfg(rng)
        cores = []
        for i in range(n):
            cfg = dict(base) if regime == 'same' else _cfg(rng)
            nt = rng.choice([30, 60, 100, 160])
            c = _core(rng, cfg, nt)
            if i > 0 and rng.random() < 0.3:
                # the same words as instance 0, but in the other instruction set / another mode: shared decode or
                # execution state keyed by the word alone would couple the two instances
                c['words'] = list(cores[0]['words'])
                c['regs']['cpsr'] ^= 0x20
                c['events'] = [e for e in c['events'] if e['tick'] < len(c['words'])]
            cores.append(c)
        if regime != 'same' and rng.random() < 0.25:
            for c in cores:
                c['config_alias'] = 'shared'        # every instance's configuration is written to the SAME file name before its constructor runs (machine.config_path)
        if regime == 'same' and rng.random() < 0.3:
            # configuration files that are the same in everything the processor consults at run time and differ in the memory they declare: every
            # RAM of every instance is declared in its file's memory_list (the library builds the hub), each instance has a window of its own that the
            # others lack, and all the processors are CONSTRUCTED first and loaded afterwards, when their turn to run comes
            for i, c in enumerate(cores):
                own = {'kind': 'ram', 'begin': 0x60000 + 0x2000 * i, 'end': 0x60000 + 0x2000 * i + rng.choice([0x1000, 0x800, 0x2000])}
                G.set_data(own, 0, bytes(rng.getrandbits(8) for _ in range(64)))
                devs = [own] + c['devices']
                for d in devs:
                    if d.get('kind', 'ram') == 'ram':
                        d['in_config'] = True
                cfgi = dict(c['config'])
                cfgi['memory_list'] = [{'mem_type': 'RAM', 'beginning': d['begin'], 'end': d['end']} for d in devs if d.get('in_config')]
                c['config'] = cfgi
                c['devices'] = [d for d in devs if d.get('in_config')] + [d for d in devs if not d.get('in_config')]
                c['defer_setup'] = True
                if c.get('force') and c['force'].get('ptr_regs'):
                    c['force']['ptr_regs'] = c['force']['ptr_regs'] + [own['begin'], own['begin'] + 4, own['begin'] + 0x7FC]
                else:
                    for nme in rng.sample(['R0usr', 'R1usr', 'R2usr', 'R3usr', 'R4usr', 'R5usr', 'R6usr', 'R7usr', 'SPusr', 'SPsvc'], 4):
                        c['regs']['R'][nme] = own['begin'] + 4 * rng.randrange(0, 64)
        style, acts = _schedule(rng, n, [len(c['words']) for c in cores])
        return {'scenario': 'interleave', 'regime': regime, 'style': style, 'cores': cores, 'actions': acts, 'image_load': rng.random() < 0.4}
    if item['k'] == 'longhaul':
        return gen_longhaul(rng)
    if item['k'] == 'hashseed':
        return gen_hashseed(rng)
    cfg = _cfg(rng)
    nt = rng.choice([60, 120, 200])
    core = _core(rng, cfg, nt)
    s = rng.randrange(1, nt - 8)
    k = rng.choice([8, 16, 32, 64])
    order = rng.choice(['lockstep', 'orig-first', 'orig-first', 'copies-first'])
    if rng.random() < 0.15:
        # a data device of 1 MiB or more (it shadows the smaller windows behind it): copies of large memories must be as private as small ones
        dd = next(d for d in core['devices'] if d['begin'] == G.DATA)
        dd['end'] = dd['begin'] + rng.choice([1 << 20, 1 << 21])
    if item['k'] == 'rolling':
        return {'scenario': 'rolling', 'cores': [core], 's': rng.randrange(0, max(1, nt - 40)), 'k': rng.choice([24, 40, 64])}
    if item['k'] == 'pristine':
        return {'scenario': 'rolling', 'pristine': True, 'cores': [core], 's': rng.randrange(0, max(1, nt - 30)), 'k': rng.choice([16, 24, 32])}
    return {'scenario': 'replay', 'cores': [core], 's': s, 'k': k, 'order': order}


def gen_hashseed(rng):
    """one instance whose devices are (partly) declared in the configuration file's memory_list - the construction path a user's own file takes -
    including a small window listed BEFORE a larger one that covers it (first match must win in every interpreter)"""
    cfg = _cfg(rng)
    nt = rng.choice([40, 80])
    core = _core0(rng, cfg, nt)
    devs = core['devices']
    # the data page is shadowed by an 'overlay' window listed first, with other contents
    ov = {'kind': 'ram', 'begin': G.DATA + 0x300, 'end': G.DATA + 0x500}
    G.set_data(ov, 0, bytes(rng.getrandbits(8) for _ in range(0x200)))
    cov = {'kind': 'ram', 'begin': G.CODE + 0x40, 'end': G.CODE + 0x80}           # and a piece of the code page by another one
    devs[:0] = [ov, cov]
    for d in devs:
        if d.get('kind', 'ram') == 'ram' and rng.random() < 0.8:
            d['in_config'] = True
    ov['in_config'] = cov['in_config'] = True
    for d in devs:
        if d['begin'] == G.DATA or d['begin'] == G.CODE:
            d['in_config'] = True
    cfg = dict(core['config'])
    cfg['memory_list'] = [{'mem_type': 'RAM', 'beginning': d['begin'], 'end': d['end']} for d in devs if d.get('in_config')]
    core['config'] = cfg
    core['devices'] = [d for d in devs if d.get('in_config')] + [d for d in devs if not d.get('in_config')]
    return {'scenario': 'hashseed', 'cores': [core], 'hashseeds': rng.sample([1, 2, 3, 4, 5, 6, 7, 8, 9, 10, 11, 12345], 3)}


# ------------------------------------------------------------------ execution helpers

def _board_for(core_spec):
    case = {'cores': [core_spec], 'events': core_spec.get('events', []), 'max_ticks': len(core_spec['words']) + 4, 'stop_at_done': False}
    return StreamBoard(case, [])


def _state(b, hidden=True):
    st = M.full_state(b.cores[0].arm, hidden=hidden)
    st['lines'] = (b.cores[0].lines['irq'], b.cores[0].lines['fiq'])
    st['dead'] = b.cores[0].dead
    return st


def solo_trace(core_spec):
    """runs in a pristine process: the instance's complete per-tick trace (digests), plus the states themselves"""
    b = _board_for(core_spec)
    states = []
    while b.advance():
        states.append(_state(b))
    return {'digests': [M.digest_of(sorted(s.items())) for s in states], 'states': states if core_spec.get('_want_states') else None,
            'ticks': b.tick, 'stats': b.stats, 'host': [v for v in (b.host_errors or [])]}


def _first_diff(sa, sb):
    keys = sorted(set(sa) | set(sb))
    d = [k for k in keys if sa.get(k) != sb.get(k)]
    return d


def _bucket(keys):
    k = keys[0] if keys else '?'
    if k.startswith('R.'):
        return 'gpr'
    if k.startswith('mem'):
        return 'memory'
    if k.startswith('sys.'):
        return 'sysreg:' + k[4:]
    return k


def _interleaved_part(arg):
    """runs in a pristine process: construct and step all instances under the schedule; compare with the solo digests"""
    case, want = arg
    cores = case['cores']
    n = len(cores)
    regime = case['regime']
    stats = {}

    def count(k, v=1):
        stats[k] = stats.get(k, 0) + v

    boards = [None] * n
    traces = [[] for _ in range(n)]
    ops = [[] for _ in range(n)]
    images = {}
    for act, i in case['actions']:
        if act == 'c':
            if boards[i] is None:
                boards[i] = _board_for(cores[i])
                count('fault.instance-create')
                if case.get('image_load'):
                    # the bench's way of loading memory: every RAM receives its complete initial image through the device's public write(), and instances
                    # whose devices start with the same contents are loaded from ONE image buffer (two cores booted from one image).  What a device does
                    # with the caller's buffer is its own business; what its owner's neighbour later stores is not
                    for mc in boards[i].cores[0].arm.mem.memories:
                        a = M.flat(mc.mem)
                        if type(mc.mem).__name__ == 'RAM' and isinstance(a, bytearray):
                            key = (len(a), bytes(a))
                            img = images.setdefault(key, bytearray(a))
                            mc.mem.write(0, len(img), img)
                            count('probe.image-loads')
                    count('probe.shared-image-buffers', 0)
            continue
        b = boards[i]
        if b is None:
            continue
        if regime == 'mixed+switch':
            M.point_global_config_at(cores[i]['config'])
            count('fault.cfg-switch')
        try:
            adv = b.advance()
        except M.ConstructionMismatch as e:
            return {'stats': stats, 'ticks': 0, 'busy': 0, 'digest': 'construction', 'mismatch': {'i': i, 't': 0, 'len_got': 0, 'len_want': len(want[i]), 'state': None, 'op': 'construction: %s' % e}}
        if adv:
            traces[i].append(_state(b))
            ops[i].append(type(b.cores[0].arm.executed_opcode).__name__)
    ticks = 0
    for i in range(n):
        b = boards[i]
        if b is None:
            continue
        # drain (schedules are generated with exactly enough steps; clock jumps may need a few more)
        if regime == 'mixed+switch':
            M.point_global_config_at(cores[i]['config'])
        while b.advance():
            traces[i].append(_state(b))
            ops[i].append(type(b.cores[0].arm.executed_opcode).__name__)
        ticks += b.tick
        for k, v in b.stats.items():
            count(k, v)
    mismatch = None
    for i in range(n):
        got = [M.digest_of(sorted(s.items())) for s in traces[i]]
        if got == want[i]:
            continue
        t = next((j for j in range(min(len(got), len(want[i]))) if got[j] != want[i][j]), min(len(got), len(want[i])))
        mismatch = {'i': i, 't': t, 'len_got': len(got), 'len_want': len(want[i]),
                    'state': traces[i][t] if t < len(traces[i]) else None, 'op': ops[i][t] if t < len(ops[i]) else '?'}
        break
    return {'stats': stats, 'ticks': ticks, 'mismatch': mismatch, 'busy': sum(1 for tr in traces if len(tr) >= 20),
            'digest': M.digest_of([M.digest_of(sorted(s.items())) for tr in traces for s in tr])}


def run_interleave(case):
    cores = case['cores']
    n = len(cores)
    regime = case['regime']
    res = {'violations': [], 'cover': set(), 'stats': {}, 'ticks': 0}
    # 1. solo baselines, each in its own pristine process
    solos = [solo.solo(solo_trace, c) for c in cores]
    # 2. all instances together, also starting from a pristine process, so that a run is a pure function of the case
    part = solo.solo(_interleaved_part, (case, [s['digests'] for s in solos]))
    res['stats'] = part['stats']
    res['ticks'] = part['ticks']
    mm = part['mismatch']
    if mm is not None:
        i, t = mm['i'], mm['t']
        spec = dict(cores[i])
        spec['_want_states'] = True
        st = solo.solo(solo_trace, spec)['states']
        if t < len(st) and mm['state'] is not None:
            diff = _first_diff(st[t], mm['state'])
            detail = 'instance %d of %d diverges from its solo trace at its tick %d (after %s): %s' % (
                i, n, t, mm['op'], ', '.join('%s solo=%r interleaved=%r' % (k, st[t].get(k), mm['state'].get(k)) for k in diff[:4]))
        else:
            diff = ['length']
            detail = 'instance %d: trace length %d vs solo %d (%s)' % (i, mm['len_got'], mm['len_want'], mm.get('op'))
        created = [j for a_, j in case['actions'] if a_ == 'c']
        last_created = created[-1] if created else None
        if regime == 'mixed' and i != last_created:
            # the known finding, identified by the history that fails: an instance that is NOT the last one constructed runs under the configuration
            # of the one constructed after it.  The instance constructed LAST owns the process-wide configuration for the rest of the run and must
            # match its solo trace like any other
            site, cls = 'regime=mixed', 'config_singleton'
        elif regime == 'mixed':
            site, cls = 'regime=mixed:last-created', _bucket(diff)
        else:
            site, cls = 'regime=' + regime, _bucket(diff)
        res['violations'].append({'oracle': 'interleave.solo_eq', 'site': site, 'cls': cls, 'detail': detail, 'tick': t})
    if part['busy'] >= 2:
        h = M.digest_of([tuple(a) for a in case['actions']])
        res['cover'].add('%s|%s|%s' % (regime, case['style'], h))
    else:
        res['cover'].add('~short|%s' % regime)
    res['stats']['probe.regime-' + regime] = 1
    res['digest'] = part['digest']
    return res


def _fork_board(b):
    b2 = copy.copy(b)
    b2.cores = copy.deepcopy(b.cores)
    b2.log = b.log.copy()
    b2.stats = dict(b.stats)
    b2.violations = []
    b2.cover = set()
    b2.pos = list(b.pos)
    b2.host_errors = list(b.host_errors or [])
    return b2


def run_replay(case):
    core = case['cores'][0]
    s, k = case['s'], case['k']
    res = {'violations': [], 'cover': set(), 'stats': {}, 'ticks': 0}
    b = _board_for(core)
    full = []
    while b.tick < s and b.advance():
        full.append(M.digest_of(sorted(_state(b).items())))
    if b.tick < s or b.cores[0].dead:
        res['cover'].add('~early-end')
        res['digest'] = M.digest_of(full)
        return res
    # (a) deep copy
    bA = _fork_board(b)
    # (b) fresh instance rebuilt from architectural state + memory only
    arm = b.cores[0].arm
    spec2 = M.snapshot_core_spec(arm, core, arch_only=True)
    for key in ('words', 'force', 'no_poke', 'events'):
        if key in core:
            spec2[key] = core[key]
    bB = _board_for(spec2)
    bB.pos = list(b.pos)
    bB.tick = b.tick
    bB.ev_pos = b.ev_pos
    bB.cores[0].lines.update(b.cores[0].lines)
    bB.cores[0].arm.is_wait_for_event = arm.is_wait_for_event
    bB.cores[0].arm.is_wait_for_interrupt = arm.is_wait_for_interrupt
    tr0, trA, trB, ops = [], [], [], []
    order = case.get('order', 'lockstep')

    def step0():
        if not b.advance():
            return False
        tr0.append((_state(b, True), _state(b, False)))
        ops.append(type(b.cores[0].arm.executed_opcode).__name__)
        full.append(M.digest_of(sorted(tr0[-1][0].items())))
        return True

    def stepA():
        if not bA.advance():
            return False
        trA.append(_state(bA, True))
        return True

    def stepB():
        if not bB.advance():
            return False
        trB.append(_state(bB, False))
        return True

    if order == 'lockstep':
        for _ in range(k):
            if not (step0() and stepA() and stepB()):
                break
    else:
        # the original runs ahead of its copies (or the copies ahead of the original): whatever one of them stores after the
        # snapshot must stay invisible to the others
        seq = [step0, stepA, stepB] if order == 'orig-first' else [stepB, stepA, step0]
        for fn in seq:
            for _ in range(k):
                if not fn():
                    break
    if not (len(tr0) == len(trA) == len(trB)):
        res['violations'].append({'oracle': 'replay.termination', 'site': 'advance', 'cls': 'length', 'tick': b.tick,
                                  'detail': 'copies end at different ticks: original %d, deep copy %d, rebuilt %d' % (len(tr0), len(trA), len(trB))})
    n_cmp = min(len(tr0), len(trA), len(trB))
    for j in range(n_cmp):
        if tr0[j][0] != trA[j]:
            d = _first_diff(tr0[j][0], trA[j])
            res['violations'].append({'oracle': 'replay.deepcopy_eq', 'site': ops[j], 'cls': _bucket(d), 'tick': s + j,
                                      'detail': 'deep copy diverges %d ticks after the snapshot: %s' % (j, d[:4])})
            break
        if tr0[j][1] != trB[j]:
            d = _first_diff(tr0[j][1], trB[j])
            res['violations'].append({'oracle': 'replay.rebuilt_eq', 'site': ops[j], 'cls': _bucket(d), 'tick': s + j,
                                      'detail': 'instance rebuilt from architectural state diverges %d ticks after the snapshot (after %s): %s' % (
                                          j, ops[j], ', '.join('%s orig=%r rebuilt=%r' % (x, tr0[j][1].get(x), trB[j].get(x)) for x in d[:4]))})
            break
    while b.advance():
        full.append(M.digest_of(sorted(_state(b).items())))
    # (c) the whole history again
    b2 = _board_for(core)
    full2 = []
    while b2.advance():
        full2.append(M.digest_of(sorted(_state(b2).items())))
    if full != full2:
        t = next((j for j in range(min(len(full), len(full2))) if full[j] != full2[j]), min(len(full), len(full2)))
        res['violations'].append({'oracle': 'replay.rerun_eq', 'site': 'rerun', 'cls': 'trace', 'detail': 'second run differs at tick %d' % t, 'tick': t})
    res['ticks'] = b.tick * 2 + 2 * len(tr0)
    for kk, v in b.stats.items():
        res['stats'][kk] = res['stats'].get(kk, 0) + v
    res['stats']['fault.snapshot-deepcopy'] = 1
    res['stats']['fault.snapshot-rebuild'] = 1
    res['stats']['fault.snapshot-order-' + order] = 1
    for o in set(ops):
        res['cover'].add('replay|%d|%s' % (min(s // 32, 5), o))
    res['digest'] = M.digest_of(full)
    return res


def _pristine_step(arg):
    """runs in a pristine grandchild: build the instance from the snapshot, take one step, report the architectural state"""
    spec2, pos, tick, ev_pos, lines, wfe, wfi = arg
    bB = _board_for(spec2)
    bB.pos = list(pos)
    bB.tick = tick
    bB.ev_pos = ev_pos
    bB.cores[0].lines.update(lines)
    bB.cores[0].arm.is_wait_for_event = wfe
    bB.cores[0].arm.is_wait_for_interrupt = wfi
    adv = bB.advance()
    return adv, _state(bB, False) if adv else None


def run_rolling(case):
    core = case['cores'][0]
    s0, k = case['s'], case['k']
    res = {'violations': [], 'cover': set(), 'stats': {}, 'ticks': 0}
    b = _board_for(core)
    full = []
    while b.tick < s0 and b.advance():
        full.append(M.digest_of(sorted(_state(b).items())))
    n = 0
    while n < k and not b.cores[0].dead and not res['violations']:
        arm = b.cores[0].arm
        spec2 = M.snapshot_core_spec(arm, core, arch_only=True)
        for key in ('words', 'force', 'no_poke', 'events'):
            if key in core:
                spec2[key] = core[key]
        bB = _board_for(spec2)
        bB.pos = list(b.pos)
        bB.tick = b.tick
        bB.ev_pos = b.ev_pos
        bB.cores[0].lines.update(b.cores[0].lines)
        bB.cores[0].arm.is_wait_for_event = arm.is_wait_for_event
        bB.cores[0].arm.is_wait_for_interrupt = arm.is_wait_for_interrupt
        prev = type(arm.executed_opcode).__name__ if getattr(arm, 'executed_opcode', None) is not None else '-'
        if case.get('pristine'):
            arg = (spec2, list(b.pos), b.tick, b.ev_pos, dict(b.cores[0].lines), arm.is_wait_for_event, arm.is_wait_for_interrupt)
            a0 = b.advance()
            aB, stP = solo.solo(_pristine_step, arg)
        else:
            a0, aB = b.advance(), bB.advance()
        if a0 != aB:
            res['violations'].append({'oracle': 'replay.termination', 'site': 'advance', 'cls': 'length', 'tick': b.tick,
                                      'detail': 'rolling rebuild: original %s, rebuilt %s at tick %d' % (a0, aB, b.tick)})
            break
        if not a0:
            break
        st0, stB = _state(b, False), (stP if case.get('pristine') else _state(bB, False))
        op = type(b.cores[0].arm.executed_opcode).__name__
        if st0 != stB:
            d = _first_diff(st0, stB)
            res['violations'].append({'oracle': 'replay.rebuilt_eq', 'site': op, 'cls': _bucket(d), 'tick': b.tick,
                                      'detail': 'an instance rebuilt from the architectural state before tick %d (previous instruction %s) steps differently (%s): %s' % (
                                          b.tick, prev, op, ', '.join('%s orig=%r rebuilt=%r' % (x, st0.get(x), stB.get(x)) for x in d[:4]))})
            break
        res['cover'].add('rolling|%s|%s' % (prev, op))
        full.append(M.digest_of(sorted(_state(b).items())))
        n += 1
    while b.advance():
        full.append(M.digest_of(sorted(_state(b).items())))
    res['ticks'] = b.tick + n
    for kk, v in b.stats.items():
        res['stats'][kk] = res['stats'].get(kk, 0) + v
    res['stats']['fault.snapshot-rebuild'] = n
    res['digest'] = M.digest_of(full)
    return res


def _hashseed_child(core):
    t = solo_trace(core)
    return M.digest_of(t['digests']), t['ticks']


def run_hashseed(case):
    """the in-process trace (PYTHONHASHSEED pinned to 0 by run_check.py) against the same case in fresh interpreters with other hash seeds"""
    import json
    import subprocess
    import sys
    import tempfile
    core = case['cores'][0]
    res = {'violations': [], 'cover': set(), 'stats': {}, 'ticks': 0}
    ref = solo.solo(_hashseed_child, core)
    d = M.scratch_dir()
    with tempfile.NamedTemporaryFile('w', suffix='.json', dir=d, delete=False) as f:
        json.dump(core, f)
        path = f.name
    verif = os.path.dirname(os.path.dirname(os.path.abspath(__file__)))
    for hs in case['hashseeds']:
        e = dict(os.environ, PYTHONHASHSEED=str(hs), VERIF_KEEP_HASHSEED='1')
        p = subprocess.run([sys.executable, '-B', os.path.join(verif, 'run_check.py'), '--trace-core', path], cwd=verif, env=e, capture_output=True, text=True, timeout=300)
        got = None
        for line in p.stdout.splitlines():
            if line.startswith('TRACE-DIGEST '):
                got = json.loads(line[len('TRACE-DIGEST '):])
        if got is None:
            raise RuntimeError('hashseed child produced no digest (exit %s): %s' % (p.returncode, (p.stdout + p.stderr)[-400:]))
        res['stats']['fault.hashseed-fresh-interpreter'] = res['stats'].get('fault.hashseed-fresh-interpreter', 0) + 1
        if got != [ref[0], ref[1]]:
            res['violations'].append({'oracle': 'hashseed.trace_eq', 'site': 'fresh-interpreter', 'cls': 'trace', 'tick': 0,
                                      'detail': 'the same case gives another trace in a fresh interpreter with PYTHONHASHSEED=%d (digest %s, %d ticks; reference %s, %d ticks)' % (
                                          hs, got[0], got[1], ref[0], ref[1])})
            break
        res['cover'].add('hashseed|%d|%d' % (hs, len(core['config'].get('memory_list', []))))
    try:
        os.remove(path)
    except OSError:
        pass
    res['ticks'] = ref[1] * (1 + len(case['hashseeds']))
    res['digest'] = ref[0]
    return res


def trace_core_main(path):
    """entry point of the fresh interpreters started by run_hashseed (run_check.py --trace-core FILE)"""
    import json
    with open(path) as f:
        core = json.load(f)
    dg, ticks = _hashseed_child(core)
    env.out('TRACE-DIGEST ' + json.dumps([dg, ticks]))
    return 0


def gen_longhaul(rng):
    """a resident loop of 3-8 simple instructions (waits, events, counters, loads/stores, exclusives) stepped by a plain caller"""
    from sim.asm import A, T
    from sim.prog import emit
    cfg = {'arch_version': 7, 'have_security_ext': bool(rng.getrandbits(1)), 'have_virt_ext': False, 'have_lpae': False,
           'memory_system_architecture': 'PMSA', 'number_of_mpu_regions': 12}
    thumb = rng.getrandbits(1)
    if thumb:
        pool = [T.hint(2), T.hint(2), T.hint(3), T.NOP, T.add_imm8(0, 1), T.add_imm8(1, 3), T.ldst_imm('str', 0, 6, 1), T.ldst_imm('ldr', 2, 6, 1),
                0xE8560F00 | 3 << 12, 0xE8460000 | 0 << 12 | 4 << 8, T.mov_imm(5, 7), T.dp(0, 1, 0)]
    else:
        pool = [A.hint(2), A.hint(2), A.hint(3), A.NOP, A.dp_imm('add', 0, 0, 1), A.dp_imm('add', 1, 1, 3), A.str_(0, 6, 4), A.ldst(1, 2, 6, 4),
                0xE1963F9F, 0xE1864F90, A.mov_imm(5, 7), A.dp_imm('eor', 1, 1, 0x55)]
    body = [rng.choice(pool) for _ in range(rng.randrange(3, 9))]
    code = emit(body, thumb)
    back = -len(code)
    code += emit([T.b(back) if thumb else A.b(back)], thumb)
    devices = G.std_devices(high=False)
    G.set_data(devices[1], 0, code)
    regs = {'cpsr': G.random_cpsr(rng, cfg, mode=rng.choice(['svc', 'sys', 'usr']), thumb=thumb) | 0xC0, 'pc': G.CODE,
            'sys': {'sctlr': G.sctlr_value(m=0, a=0, u=1, te=thumb)}, 'R': G.random_regfile(rng, cfg), 'spsr': G.random_spsrs(rng, cfg, valid=True),
            'event_register': bool(rng.getrandbits(1))}
    regs['R']['R6usr'] = G.DATA + 0x400
    core = {'config': cfg, 'devices': devices, 'regs': regs}
    k = rng.randrange(10000, 70000)
    # events sent through the public API (send_event_local) at seeded steps after the snapshot, to the original and to both copies alike
    sev = sorted(rng.sample(range(0, min(k, 3000)), rng.choice([0, 1, 2, 4])))
    return {'scenario': 'longhaul', 'cores': [core], 'n1': rng.randrange(1000, 140000), 'k': k, 'events': [], 'sev_at': sev}


def run_longhaul(case):
    core = case['cores'][0]
    res = {'violations': [], 'cover': set(), 'stats': {}, 'ticks': 0}
    arm = M.new_arm(core)

    def step(a):
        try:
            a.emulate_cycle()
        except NotImplementedError:
            a.registers.branch_to((a.registers.pc_store_value() + a.opcode_len // 8) & 0xFFFFFFFF)      # declared-unimplemented hint (SEV, YIELD): skip it
    for _ in range(case['n1']):
        step(arm)
    spec2 = M.snapshot_core_spec(arm, core, arch_only=True)
    armB = M.new_arm(spec2)
    armB.is_wait_for_event, armB.is_wait_for_interrupt = arm.is_wait_for_event, arm.is_wait_for_interrupt
    armA = copy.deepcopy(arm)
    digs = []
    sev_at = set(case.get('sev_at', ()))
    for j in range(case['k']):
        if j in sev_at:
            for a_ in (arm, armA, armB):
                a_.send_event_local()
            res['stats']['fault.sev'] = res['stats'].get('fault.sev', 0) + 1
        step(arm)
        step(armA)
        step(armB)
        l0, lA, lB = M.light(arm), M.light(armA), M.light(armB)
        if l0 != lA or l0 != lB or (j & 0x3FF) == 0x3FF or j == case['k'] - 1:
            f0, fA, fB = M.full_state(arm, hidden=False), M.full_state(armA, hidden=False), M.full_state(armB, hidden=False)
            digs.append(M.digest_of(sorted(f0.items())))
            for nme, f, orc in (('deep copy', fA, 'replay.deepcopy_eq'), ('instance rebuilt from architectural state', fB, 'replay.rebuilt_eq')):
                if f != f0:
                    d = _first_diff(f0, f)
                    res['violations'].append({'oracle': orc, 'site': 'longhaul', 'cls': _bucket(d), 'tick': case['n1'] + j,
                                              'detail': '%s diverges %d steps after a snapshot taken at step %d: %s' % (
                                                  nme, j, case['n1'], ', '.join('%s orig=%r other=%r' % (x, f0.get(x), f.get(x)) for x in d[:4]))})
            if res['violations']:
                break
    res['ticks'] = case['n1'] + 3 * case['k']
    res['stats']['fault.snapshot-deepcopy'] = 1
    res['stats']['fault.snapshot-rebuild'] = 1
    res['stats']['probe.longhaul-steps'] = res['ticks']
    res['cover'].add('longhaul|%d|%d' % (case['n1'] >> 14, case['k'] >> 14))
    res['digest'] = M.digest_of(digs)
    return res


def run(case):
    solo._ensure()          # every kind: the pristine zygote must exist before this process constructs its first instance (kinds are interleaved in the plan)
    p0 = M.env.print_count[0]
    if case['scenario'] == 'longhaul':
        res = run_longhaul(case)
        res['stats']['prints'] = M.env.print_count[0] - p0
        res['interesting'] = bool(res['violations'])
        return res
    if case['scenario'] == 'rolling':
        res = run_rolling(case)
    elif case['scenario'] == 'hashseed':
        res = run_hashseed(case)
    else:
        res = run_interleave(case) if case['scenario'] == 'interleave' else run_replay(case)
    res['stats']['prints'] = M.env.print_count[0] - p0
    res['interesting'] = bool(res['violations'])
    return res


def sample(case, res):
    if case['scenario'] == 'interleave':
        return {'scenario': 'interleave', 'regime': case['regime'], 'style': case['style'],
                'instances': [{'config': c['config'], 'n_words': len(c['words']), 'words': ['%08x' % w for w in c['words'][:6]],
                               'events': [{k: v for k, v in e.items() if k != 'regs'} for e in c['events'][:4]]} for c in case['cores']],
                'actions': ''.join('%s%d ' % (a, i) for a, i in case['actions'][:60]), 'violations': res['violations'][:1]}
    c = case['cores'][0]
    if case['scenario'] == 'longhaul':
        return {'scenario': 'longhaul', 'config': c['config'], 'steps_before_snapshot': case['n1'], 'steps_after': case['k'],
                'code': c['devices'][1]['data']['0'], 'violations': res['violations'][:1]}
    if case['scenario'] == 'hashseed':
        return {'scenario': 'hashseed', 'config': c['config'], 'hashseeds': case['hashseeds'], 'n_words': len(c['words']), 'violations': res['violations'][:1]}
    return {'scenario': case['scenario'], 'config': c['config'], 'snapshot_tick': case['s'], 'k': case['k'], 'words': ['%08x' % w for w in c['words'][:8]],
            'events': [{k: v for k, v in e.items() if k != 'regs'} for e in c['events'][:4]], 'violations': res['violations'][:1]}


def shrink(case):
    if case['scenario'] == 'longhaul':
        # fewer steps after / before the snapshot
        for k in (case['k'] // 2, case['k'] - 1000):
            if 0 < k < case['k']:
                yield dict(case, k=k)
        for n1 in (case['n1'] // 2, case['n1'] - 1000):
            if 0 < n1 < case['n1']:
                yield dict(case, n1=n1)
        return
    if case['scenario'] == 'interleave':
        cores = case['cores']
        n = len(cores)
        # drop an instance
        if n > 2:
            for i in range(n):
                keep = [j for j in range(n) if j != i]
                remap = {j: x for x, j in enumerate(keep)}
                c = dict(case)
                c['cores'] = [cores[j] for j in keep]
                c['actions'] = [[a, remap[j]] for a, j in case['actions'] if j in remap]
                yield c
        # shorten programs
        for i in range(n):
            w = cores[i]['words']
            for cut in (len(w) // 2, len(w) - 1):
                if 0 < cut < len(w):
                    c = dict(case)
                    cs = list(cores)
                    ci = dict(cores[i])
                    ci['words'] = w[:cut]
                    ci['events'] = [e for e in ci['events'] if e['tick'] < cut]
                    cs[i] = ci
                    c['cores'] = cs
                    yield c
            for j in range(len(cores[i]['events'])):
                c = dict(case)
                cs = list(cores)
                ci = dict(cores[i])
                ci['events'] = ci['events'][:j] + ci['events'][j + 1:]
                cs[i] = ci
                c['cores'] = cs
                yield c
        return
    core = case['cores'][0]
    w = core['words']
    if case['scenario'] == 'hashseed':
        for cut in (len(w) // 2, len(w) - 1):
            if 0 < cut < len(w):
                yield dict(case, cores=[dict(core, words=w[:cut], events=[e for e in core['events'] if e['tick'] < cut])])
        if len(case['hashseeds']) > 1:
            for hs in case['hashseeds']:
                yield dict(case, hashseeds=[hs])
        return
    for cut in (case['s'] + case['k'] + 1, case['s'] + 9):
        if cut < len(w):
            c = dict(case)
            c['cores'] = [dict(core, words=w[:cut], events=[e for e in core['events'] if e['tick'] < cut])]
            yield c
    if case['k'] > 8:
        yield dict(case, k=case['k'] // 2)
    for j in range(len(core['events'])):
        c = dict(case)
        c['cores'] = [dict(core, events=core['events'][:j] + core['events'][j + 1:])]
        yield c
