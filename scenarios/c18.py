"""C18 — stepping is total.  Scenario 'corrupt' in stream mode: a seeded stream of corrupted / random /
vocabulary instruction words is fed to a running core one word per tick, each word placed at wherever the
PC currently is, while interrupts, resets and regime changes (mode, ISA, IT state, MPU/MMU, alignment
policy) are injected at seeded ticks.  Oracle M-host: nothing but NotImplementedError may escape."""
from sim import gen as G, machine as M
from sim.stream import StreamBoard
from sim.asm import A, T
from sim.monitors import RangeMonitor, ModeMonitor
from sim.gen import CODE, CODE_SZ, DATA, LOW, HIGH, STACKS

PROPERTY = 'C18'
LEVEL = 'exploration'
BUDGET_S = {'quick': 120, 'thorough': 1500}
EXHAUSTIVE = {'quick': False, 'thorough': False}
RULE = ("Runs are derived from (VERIF_SEED, index). Each run builds a fresh core from a seeded configuration "
        "(arch 4-7, security/virtualization ext, PMSA/VMSA, LPAE, ThumbEE/Jazelle/MP switches; MPU region sets; short-descriptor tables with pages, sections "
        "and supersections, long-descriptor stage 1, Hyp stage 1, stage 2) and a seeded state, then executes a stream of words "
        "(random 32-bit, bit-flipped vocabulary encodings, valid vocabulary encodings; thorough tier adds the complete 16-bit "
        "Thumb space in each IT position; both tiers sweep hw1[15:4] of the 32-bit Thumb space and bits 27:20 x 7:4 of the ARM space with seeded fields and "
        "range-edge operand values) one per tick at the current PC, with IRQ/FIQ/reset/regime events at seeded ticks. "
        "distinct_nontrivial counts distinct (executed opcode class or decoder outcome, mode, ISA, IT position) tuples observed.")
ASSUMPTIONS = [
    "valid machine state = legal CPSR.M for the configuration, and J=1 only where the configuration has ThumbEE (with T=1) or Jazelle (with T=0); "
    "the supervisor clears J if an UNPREDICTABLE exception return sets it elsewhere and counts that (probe j-cleared)",
    "NotImplementedError is the documented 'unimplemented feature' outcome and is counted per site, not flagged",
    "sampled, not enumerated: only the 16-bit sweep of the thorough tier is complete, and only per IT position with seeded register state",
]

TABLES = 0x50000
WIN = 0x00100000             # a small RAM behind the page-mapped window (VMSA configurations)
TABLES_SZ = 0x8000
BIG = 0x40000000            # base of the occasional large RAM


def plan(tier, seed):
    # sweepT32: every value of hw1[15:4] of the 32-bit Thumb space (0xE80..0xFFF, 384 values) x seeded hw2 with register fields biased to 13/15;
    # sweepA32: every value of ARM bits [27:20] x [7:4] x cond in {AL, NV} with seeded register/immediate fields
    # storm: one instance, 2^16 + 1024 consecutive steps of one kind (every step an Undefined Instruction / SVC / alignment-fault entry, or every step a retired
    # NOP, or streaks of exactly 2^16 - 1 and 2^16 + 1 entries separated by one retired instruction): counters, thresholds and saturations inside the library
    storms = [{'k': 'storm', 'sub': x} for x in ('und', 'svc', 'dabt', 'nop', 'mix')]
    if tier == 'quick':
        return _spread(storms, [{'k': 'stream'}] * 12000 + [{'k': 'sweep16', 'slice': i, 'of': 1024, 'ctx': i % 3} for i in range(1024)] +
                [{'k': 'sweepT32', 'slice': i, 'rep': 256} for i in range(0, 384, 8)] + [{'k': 'sweepA32', 'slice': i, 'rep': 12} for i in range(0, 8192, 64)])
    items = [{'k': 'stream'}] * 400000
    for ctx in range(3):
        items += [{'k': 'sweep16', 'slice': i, 'of': 256, 'ctx': ctx} for i in range(256)]
    for rnd in range(6):
        items += [{'k': 'sweepT32', 'slice': i, 'rep': 512} for i in range(0, 384, 8)]
        items += [{'k': 'sweepA32', 'slice': i, 'rep': 64} for i in range(0, 8192, 64)]
    return _spread(storms * 8, items)


def _spread(special, items):
    """the few long items placed at even distances through the plan (the runner hands contiguous slices to its workers)"""
    items = list(items)
    step = len(items) // (len(special) + 1)
    for i, it in enumerate(special):
        items.insert((i + 1) * step + i, it)
    return items


def _biased_fields(rng, w, positions):
    """overwrite 4-bit register fields at the given bit positions with values biased to SP/LR/PC and equal registers"""
    last = None
    for pos in positions:
        k = rng.random()
        if k < 0.5:
            continue
        v = rng.choice([13, 14, 15, 15, 0, last if last is not None else 1])
        last = v
        w = (w & ~(0xF << pos)) | v << pos
    return w


def _vmsa_tables(rng, dev, mode):
    """short-descriptor L1 table at TABLES: identity sections for the mapped areas (+ noise)"""
    def section(base, ap=3, domain=0, xn=0):
        return (base & 0xFFF00000) | (ap & 3) << 10 | (ap >> 2) << 15 | domain << 5 | xn << 4 | 0b10
    ents = {}
    if mode == 'identity':
        ents[0] = section(0)
        ents[0xFFF] = section(0xFFF00000)
    for _ in range(rng.randrange(0, 6)):
        ents[rng.randrange(4096)] = rng.getrandbits(32)
    if mode == 'random':
        for i in (0, 0xFFF):
            ents[i] = rng.choice([section(i << 20, ap=rng.randrange(8), domain=rng.randrange(16)), rng.getrandbits(32),
                                  (TABLES + 0x400 * rng.randrange(4)) | 1, 0])
    if mode == 'identity' and rng.random() < 0.7:
        # VA 0x00100000..0x001FFFFF through a second-level table at TABLES+0x1000 (small / large pages, faults, noise) and a
        # supersection at VA 0x01000000, so that loads/stores and fetches through registers aimed there do full two-level walks
        ents[1] = (TABLES + 0x1000) | rng.randrange(16) << 5 | rng.getrandbits(1) << 3 | 0b01
        for i in range(256):
            pa = rng.choice([LOW, CODE, DATA, DATA]) + 0x1000 * rng.randrange(0, 2)
            r = rng.random()
            if r < 0.6:
                d = (pa & 0xFFFFF000) | rng.getrandbits(1) << 11 | rng.getrandbits(1) << 9 | rng.choice([3, 3, 2, 1, 0]) << 4 | rng.getrandbits(2) << 2 | 0b10 | (rng.random() < 0.15)
            elif r < 0.75:
                d = (pa & 0xFFFF0000) | rng.getrandbits(1) << 15 | rng.getrandbits(1) << 9 | rng.choice([3, 3, 2, 1, 0]) << 4 | rng.getrandbits(2) << 2 | 0b01
            elif r < 0.9:
                d = 0
            else:
                d = rng.getrandbits(32)
            G.set_data(dev, 0x1000 + 4 * i, d.to_bytes(4, 'little'))
        # the first four pages of the window are identity-mapped onto a RAM that really sits at 0x00100000 (so programs can run there), with
        # every memory-type selector: TEX[0]:C:B incl. the implementation-defined remap region 6, read-only / no-access variants
        for i in range(4):
            texcb = rng.choice([6, 6, 6, rng.randrange(8)])
            d = (WIN + (i << 12)) | (texcb >> 2) << 6 | (texcb & 3) << 2 | rng.choice([3, 3, 3, 2, 1]) << 4 | rng.getrandbits(1) << 10 | 0b10
            G.set_data(dev, 0x1000 + 4 * i, d.to_bytes(4, 'little'))
        ss = 1 << 18 | rng.choice([3, 3, 1, 0]) << 10 | rng.getrandbits(1) << 15 | rng.getrandbits(1) << 4 | 0b10 | (rng.getrandbits(4) << 20 if rng.random() < 0.2 else 0)
        for i in range(16, 32):
            ents[i] = ss
    for i, v in ents.items():
        G.set_data(dev, 4 * i, v.to_bytes(4, 'little'))
    # a few seeded second-level entries
    for t in range(2):
        for _ in range(4):
            G.set_data(dev, 0x1000 + 0x400 * t + 4 * rng.randrange(256), rng.getrandbits(32).to_bytes(4, 'little'))
    # stage-2 (long-descriptor) level-1 table at TABLES+0x3000: four 1 GiB identity blocks, used when HCR.VM=1 in a Non-secure PL1/PL0 regime
    for i in range(4):
        d = i << 30 | 1 << 10 | 3 << 6 | 0xF << 2 | 0b01
        r = rng.random()
        if r < 0.08:
            d = rng.getrandbits(64)
        elif r < 0.16:
            d = (d & ~(3 << 6)) | rng.getrandbits(2) << 6            # stage-2 access permissions
        elif r < 0.2:
            d &= ~(1 << 10)                                          # access flag clear
        elif r < 0.26:
            d = (d & ~(0xF << 2)) | rng.getrandbits(4) << 2          # memory attributes
        G.set_data(dev, 0x3000 + 8 * i, d.to_bytes(8, 'little'))
    if rng.random() < 0.45:
        # three-level long-descriptor tables for the first GiB: L1[0] -> level-2 table at +0x4000 (2 MiB blocks, entry 0 -> level-3 table at
        # +0x5000 with 4 KiB identity pages for the low 2 MiB, where every device of the board lives); table attributes and page
        # permissions seeded, a few entries invalid or random
        def tbl(addr):
            return addr | rng.choice([0, 0, 0, rng.getrandbits(5)]) << 59 | 0b11
        G.set_data(dev, 0x3000, tbl(TABLES + 0x4000).to_bytes(8, 'little'))
        for i in range(512):
            r = rng.random()
            d = i << 21 | 1 << 10 | rng.choice([1, 1, 0, 3]) << 6 | rng.getrandbits(3) << 2 | 0b01
            if r < 0.03:
                d = rng.getrandbits(64)
            elif r < 0.06:
                d = 0
            G.set_data(dev, 0x4000 + 8 * i, d.to_bytes(8, 'little'))
        G.set_data(dev, 0x4000, tbl(TABLES + 0x5000).to_bytes(8, 'little'))
        for i in range(512):
            r = rng.random()
            d = i << 12 | 1 << 10 | rng.choice([1, 1, 1, 0, 3, 2]) << 6 | rng.getrandbits(3) << 2 | rng.getrandbits(2) << 53 | 0b11
            if r < 0.02:
                d = rng.getrandbits(64)
            elif r < 0.04:
                d &= ~1                       # invalid
            elif r < 0.06:
                d &= ~2                       # reserved at level 3
            elif r < 0.08:
                d &= ~(1 << 10)               # access flag clear
            G.set_data(dev, 0x5000 + 8 * i, d.to_bytes(8, 'little'))


def regime(rng, cfg, first=False):
    """a seeded 'regime': the part of the state the supervisor re-installs at regime-change events"""
    thumb = rng.getrandbits(1)
    it = 0
    if thumb and rng.random() < 0.3:
        it = rng.randrange(1, 256)
    cpsr = G.random_cpsr(rng, cfg, thumb=thumb, it=it, e=None)
    sct = G.sctlr_value(m=int(rng.random() < 0.5), a=int(rng.random() < 0.3), v=int(rng.random() < 0.3), u=rng.getrandbits(1),
                          ve=int(rng.random() < 0.1), te=rng.getrandbits(1), br=rng.getrandbits(1), nmfi=int(rng.random() < 0.2),
                          tre=int(rng.random() < (0.85 if cfg['memory_system_architecture'] == 'VMSA' else 0.3)), afe=int(rng.random() < 0.2))
    sys = {'sctlr': sct}
    if cfg.get('have_security_ext'):
        sys['scr'] = rng.getrandbits(6) if rng.random() < 0.5 else 0
    if cfg.get('have_virt_ext'):
        sys['hcr'] = rng.getrandbits(32) & (1 << 27 | 1 << 5 | 1 << 4 | 1 << 3 | 1 << 13 | 1 << 14) if rng.random() < 0.5 else 0
        sys['hsctlr'] = rng.getrandbits(1) << 30 | rng.getrandbits(1) << 1
        sys['hcptr'] = rng.getrandbits(14) if rng.random() < 0.3 else 0
        if (cpsr & 0x1F) == 0x1a:
            sys['scr'] = sys.get('scr', 0) | 1
        if rng.random() < 0.3 and (cpsr & 0x1F) not in (0x16, 0x1a):
            # second-stage translation on for a Non-secure guest: every access also walks the stage-2 tables
            sys['scr'] = sys.get('scr', 0) | 1
            sys['hcr'] = (sys['hcr'] | 1) & ~(1 << 27)
            sys['vttbr'] = TABLES + 0x3000
            sys['vtcr'] = 1 << 6 | rng.getrandbits(6) << 8
    sys['cpacr'] = rng.getrandbits(28) if rng.random() < 0.5 else 0x0FFFFFFF
    sys['nsacr'] = rng.getrandbits(20) if rng.random() < 0.4 else 0x3FFF
    if cfg['memory_system_architecture'] == 'PMSA':
        sys.update(G.mpu_sys(G.random_mpu(rng, cfg['number_of_mpu_regions']), nu=rng.getrandbits(1)))
        if sys['drsrs'] and rng.random() < 0.6:
            # make sure code and vectors are reachable most of the time: a full-access 4 GiB region 0
            sys['drsrs'][0] = 1 | 31 << 1
            sys['drbars'][0] = 0
            sys['dracrs'][0] = 3 << 8
    else:
        sys['ttbr0'] = TABLES | rng.getrandbits(6)
        sys['ttbr1'] = rng.choice([TABLES, DATA, 0])
        sys['ttbcr'] = rng.choice([0, 0, 0, rng.randrange(8), rng.randrange(8) | (1 << 31 if cfg.get('have_lpae') else 0)])
        if cfg.get('have_lpae') and rng.random() < 0.5:
            # long-descriptor format with seeded T0SZ/T1SZ, EPDx, and every cacheability / shareability field value
            sys['ttbcr'] = (1 << 31 | rng.choice([0, 0, 0, 1, rng.randrange(8)]) | rng.choice([0, 0, rng.randrange(8)]) << 16 | rng.getrandbits(6) << 8 | rng.getrandbits(6) << 24 |
                            int(rng.random() < 0.1) << 7 | int(rng.random() < 0.1) << 23 | rng.getrandbits(1) << 22)
        sys['dacr'] = rng.choice([0x55555555, 0xFFFFFFFF, 1, 3, rng.getrandbits(32)])
        sys['prrr'] = rng.getrandbits(32)
        sys['nmrr'] = rng.getrandbits(32)
        # (the emulator's short-descriptor walk reads the 64-bit TTBR storage)
        sys['ttbr0_64'] = rng.choice([TABLES, TABLES, TABLES | rng.getrandbits(6), 0])
        sys['ttbr1_64'] = rng.choice([TABLES, DATA, 0])
        if cfg.get('have_lpae') and (sys['ttbcr'] >> 31):
            # long-descriptor stage 1: TTBR0/1 point either at the short-descriptor words (noise) or at the 1 GiB identity blocks
            sys['ttbr0_64'] = rng.choice([TABLES, TABLES + 0x3000, TABLES + 0x3000])
            sys['ttbr1_64'] = rng.choice([TABLES, TABLES + 0x3000, 0])
            sys['mair0'] = rng.getrandbits(32)
            sys['mair1'] = rng.getrandbits(32)
    sys['vbar'] = rng.choice([0, 0, LOW + 0x200, CODE])
    sys['mvbar'] = rng.choice([0, LOW + 0x400, CODE + 0x100])
    sys['hvbar'] = rng.choice([0, LOW + 0x800])
    if cfg.get('have_virt_ext') and cfg.get('have_lpae'):
        # Hyp-mode stage 1 (HSCTLR.M) through the same block table
        sys['httbr'] = rng.choice([TABLES + 0x3000, TABLES + 0x3000, TABLES])
        sys['htcr'] = rng.choice([0, 0, rng.getrandbits(3)]) | rng.getrandbits(6) << 8
        if rng.random() < 0.3:
            sys['hsctlr'] = sys.get('hsctlr', 0) | 1
    R = G.random_regfile(rng, cfg)
    if cfg['memory_system_architecture'] == 'VMSA' and rng.random() < 0.5:
        for _ in range(2):
            R['R%dusr' % rng.randrange(8)] = rng.choice([0x00100000 + 0x1000 * rng.randrange(256), WIN + 0x1000 * rng.randrange(4), WIN + 0x1000 * rng.randrange(4),
                                                         0x01000000 + 0x10000 * rng.randrange(16)]) + rng.choice([0, 4, 0xFFC, 0xFFE, 0x3C0, 1, 2, 0x101])
    return {'cpsr': cpsr, 'sys': sys, 'R': R, 'spsr': G.random_spsrs(rng, cfg, valid=True),
            'elr_hyp': G.random_value(rng)}


def gen_case(item, rng, tier):
    cfg = G.random_config(rng, extras=True)
    devices = G.std_devices()
    tables = {'kind': 'ram', 'begin': TABLES, 'end': TABLES + TABLES_SZ}
    if cfg['memory_system_architecture'] == 'VMSA':
        _vmsa_tables(rng, tables, rng.choice(['identity', 'identity', 'random']))
    devices.append(tables)
    if cfg['memory_system_architecture'] == 'VMSA':
        devices.append({'kind': 'ram', 'begin': WIN, 'end': WIN + 0x4000})
    # data page: random bytes so loads produce varied values (incl. words used as page-table descriptors)
    G.set_data(devices[2], 0x3C0, bytes(rng.getrandbits(8) for _ in range(0x80)))
    G.host_call_blocks(devices[2])
    reg0 = regime(rng, cfg, True)
    reg0['pc'] = CODE + 4 * rng.randrange(0, 64)
    if cfg['memory_system_architecture'] == 'VMSA' and rng.random() < 0.25:
        reg0['pc'] = WIN + 0x1000 * rng.randrange(4) + 4 * rng.randrange(0, 64)          # run from the page-mapped window
    core = {'config': cfg, 'devices': devices, 'regs': reg0, 'no_poke': [TABLES]}
    if item['k'] in ('sweepT32', 'sweepA32'):
        # keep memory reachable: MPU/MMU off, registers aimed at the data page
        reg0['sys']['sctlr'] = G.sctlr_value(m=0, a=rng.getrandbits(1), u=rng.getrandbits(1), te=rng.getrandbits(1), v=0)
        words = []
        if item['k'] == 'sweepT32':
            for hi in range(item['slice'], item['slice'] + 8):
                hw1_base = (0xE80 + hi) << 4
                for _ in range(item['rep']):
                    w = (hw1_base | rng.getrandbits(4)) << 16 | rng.getrandbits(16)
                    words.append(_biased_fields(rng, w, (16, 12, 8, 0)))
            force = {'it': rng.choice([0, 0, 0x08 | rng.randrange(14) << 4, None]), 'ctx': 9, 'thumb': 1}
        else:
            for cell in range(item['slice'], item['slice'] + 64):
                base = (cell >> 5) << 20 | ((cell >> 1) & 0xF) << 4 | (0xF if cell & 1 else 0xE) << 28
                for _ in range(item['rep']):
                    w = base | (rng.getrandbits(32) & 0x000FFF0F)
                    words.append(_biased_fields(rng, w, (16, 12, 8, 0)))
            force = {'it': 0, 'ctx': 9, 'thumb': 0}
        rng.shuffle(words)
        nt = len(words)
        if rng.random() < 0.5:
            force['edge_regs'] = rng.randrange(1, 8)          # r0-r12 reloaded with range-edge operands before two ticks out of three
    elif item['k'] == 'storm':
        te = rng.getrandbits(1)
        reg0['sys']['sctlr'] = G.sctlr_value(m=0, a=1, u=1, te=te, v=rng.getrandbits(1), ee=0)
        reg0['cpsr'] &= ~(1 << 9)
        und = (T.udf(rng.getrandbits(8)) << 16 | T.NOP) if te else A.udf(rng.getrandbits(8))
        svc = (T.svc(rng.getrandbits(8)) << 16 | T.NOP) if te else A.svc(rng.getrandbits(24))
        dab = (T.ldst_imm('ldr', 0, 1, 0) << 16 | T.NOP) if te else A.ldst(1, 0, 1, 0)
        nop = (T.NOP << 16 | T.NOP) if te else A.NOP
        n = 0x10000
        words = {'und': [und] * (n + 1024), 'svc': [svc] * (n + 1024), 'dabt': [dab] * (n + 1024), 'nop': [nop] * (n + 1024),
                 'mix': [rng.choice([und, svc])] * (n - 1) + [nop] + [und] * (n + 1)}[item['sub']]
        force = {'it': 0, 'ctx': 9, 'thumb': te, 'ptr_regs': [DATA + 0x401, DATA + 0x403, DATA + 0x402]}
        nt = len(words)
    elif item['k'] == 'sweep16':
        n = 65536 // item['of']
        lo = item['slice'] * n
        words = [(h << 16) | rng.choice([0xBF00, rng.getrandbits(16), 0xF000, 0x8000]) for h in range(lo, lo + n)]
        ctx = item['ctx']
        force = {'it': [0, 0x08 | rng.randrange(16) << 4, None][ctx], 'ctx': ctx}
        nt = len(words)
    else:
        nt = rng.choice([60, 120, 200, 300])
        tb = rng.random()
        words = G.stream_words(rng, nt, tb)
        force = None
    events = []
    nev = rng.randrange(0, max(1, nt // 16)) if rng.random() > 0.25 and item['k'] != 'storm' else 0
    for _ in range(nev):
        k = rng.random()
        t = rng.randrange(1, nt)
        if item['k'] != 'stream' and k >= 0.45:
            k = rng.random() * 0.45
        if k < 0.2:
            events.append({'tick': t, 'core': 0, 'kind': 'irq'})
        elif k < 0.4:
            events.append({'tick': t, 'core': 0, 'kind': 'fiq'})
        elif k < 0.43:
            events.append({'tick': t, 'core': 0, 'kind': 'reset'})
        elif k < 0.44:
            events.append({'tick': t, 'core': 0, 'kind': 'regswap'})
        elif k < 0.45:
            if not any(e['kind'] == 'unmap' for e in events):
                events.append({'tick': t, 'core': 0, 'kind': 'unmap', 'keep': rng.choice([3, 3, 2, 4])})
        else:
            events.append({'tick': t, 'core': 0, 'kind': 'regime', 'regs': regime(rng, cfg)})
    events.sort(key=lambda e: e['tick'])
    core['words'] = words
    core['force'] = force
    if rng.random() < 0.2:
        # a small window with an odd size in front of the data page, ending in the middle of the word most pointers aim at: an aligned word or
        # doubleword access that starts in its last byte(s) runs off its end, with the data page mapped directly behind it
        end = DATA + 0x400 + rng.choice([1, 1, 2, 3, 5, 0x41, -3])
        ov = {'kind': 'ram', 'begin': end - rng.choice([0x21, 0x30, 0x7]), 'end': end}
        G.set_data(ov, 0, bytes(rng.getrandbits(8) for _ in range(8)))
        core['devices'].insert(0, ov)
    if item['k'] == 'stream' and rng.random() < 0.03:
        # a large device (16-32 MiB) whose size is not a multiple of any page / block size, with pointers at its last bytes (whatever a device does
        # to hold that much memory, its tail is where the arithmetic differs)
        size = rng.choice([1 << 24, 1 << 24, 1 << 25, 24 << 20]) + rng.choice([1, 0x1234, 0xFFFF, 0x10001, 0xFFF, 0x8000, 0])
        big = {'kind': 'ram', 'begin': BIG, 'end': BIG + size}
        G.set_data(big, size - 8, bytes(rng.getrandbits(8) for _ in range(8)))
        core['devices'].append(big)
        for _ in range(3):
            reg0['R'][rng.choice(['R%dusr' % rng.randrange(8), 'SPusr', 'SPsvc', 'R%dusr' % rng.randrange(13)])] = BIG + size - rng.choice([1, 2, 3, 4, 5, 8, 9, 0x10, 0x40, 0x1000, 0x10000, 0x10004])
        if rng.random() < 0.5:
            reg0['sys']['sctlr'] &= ~1                 # MPU / MMU off: the accesses reach the device
    if item['k'] == 'stream' and rng.random() < 0.1:
        # RAM in the last page of the address space, pointers at its last words (address arithmetic that passes 2^32 with memory really there)
        core['devices'].append({'kind': 'ram', 'begin': 0xFFFFF000, 'end': 0x100000000})
        for _ in range(4):
            reg0['R'][rng.choice(['R%dusr' % rng.randrange(13), 'SPusr', 'SPsvc', 'LRusr'])] = 0x100000000 - rng.choice([4, 8, 12, 16, 20, 32, 64, 3, 6])
        if rng.random() < 0.6:
            reg0['sys']['sctlr'] &= ~1
    if item['k'] == 'stream' and rng.random() < 0.1:
        core['monitors_pass'] = True         # an integrator's exclusive monitors (the stock ones are mocks that never grant): store-exclusives really store
    if item['k'] == 'stream' and rng.random() < 0.06:
        core['twin'] = rng.choice([20, 50, 100])
    if item['k'] in ('stream', 'sweep16') and rng.random() < 0.08:
        core['custom_fetch'] = True          # an integrator's fetch unit in place of the stock fetch_instruction() (sim/machine.py)
    return {'scenario': 'corrupt', 'kind': item['k'], 'cores': [core], 'events': events,
            'max_ticks': nt + 4, 'stop_at_done': False}


def gen(item, rng, tier):
    return gen_case(item, rng, tier)


class HostMonitor:
    def __init__(self):
        self.pending_reset_check = 0

    def on_tick(self, b, rec):
        arm = b.cores[rec['core']].arm
        cpsr = rec['pre'][1]
        if rec['what'] == 'step':
            op = arm.executed_opcode
            it = ((cpsr >> 8) & 0xFC) | ((cpsr >> 25) & 3)
            itpos = 'none' if not it & 0xF else ('last' if it & 0xF == 8 else 'in')
            post_mode = rec['post'][1] & 0x1F
            pre_mode = cpsr & 0x1F
            outcome = 'host' if rec['exc'] else ('nie' if rec['nie'] else ('exc%x' % post_mode if post_mode != pre_mode else 'ok'))
            name = type(op).__name__ if (outcome == 'ok' and op is not None) else outcome
            b.cover.add('%s|%x|%s|%s' % (name, pre_mode, 'T' if (cpsr >> 5) & 1 else 'A', itpos))
            if post_mode != pre_mode and not rec['exc']:
                b.count('exc.%s->%s' % (M.MODE_NAMES.get(pre_mode, '?'), M.MODE_NAMES.get(post_mode, '?')))
        if rec['exc']:
            name, site, detail = rec['exc']
            b.violate('host_error', site, name, '%s at pc=%#x opcode=%#x len=%d cpsr=%#x' % (
                detail, rec['pre_pc'], arm.opcode, arm.opcode_len, cpsr))
            b.stop = True


def run(case):
    env_prints = M.env.print_count[0]
    try:
        b = StreamBoard(case, [HostMonitor(), RangeMonitor(report=False), ModeMonitor(case['cores'][0]['config'], report=False)])
    except Exception as e:
        name, site = M.exc_site(e)
        if site == '?' or isinstance(e, M.ConstructionMismatch):
            raise                      # (not raised by the library: a harness error)
        # the library failed with a host error while the processor was being constructed or its memory loaded through the devices' own interface
        return {'violations': [{'oracle': 'host_error', 'site': site, 'cls': name, 'tick': 0, 'detail': '%r while the machine was being built and loaded' % (e,)}],
                'cover': set(), 'stats': {'hosterr.%s@%s' % (name, site): 1}, 'ticks': 0, 'digest': 'construction', 'interesting': True}
    b.run()
    for what, name, site, detail in b.host_errors or []:
        b.violate('host_error', site, name, '%s during %s' % (detail, what))
    b.count('prints', M.env.print_count[0] - env_prints)
    return {'violations': b.violations, 'cover': b.cover, 'stats': b.stats, 'ticks': b.tick, 'digest': b.digest(),
            'interesting': bool(b.violations)}


def sample(case, res):
    return {'scenario': 'corrupt', 'kind': case['kind'], 'config': case['cores'][0]['config'], 'start_cpsr': hex(case['cores'][0]['regs']['cpsr']),
            'words': ['%08x' % w for w in case['cores'][0]['words'][:12]], 'n_words': len(case['cores'][0]['words']),
            'events': [{k: v for k, v in e.items() if k != 'regs'} for e in case['events'][:8]], 'ticks': res['ticks'],
            'violations': res['violations'][:2]}


def _with_words(case, words, events=None, max_ticks=None):
    c = dict(case)
    core = dict(case['cores'][0])
    core['words'] = words
    c['cores'] = [core]
    if events is not None:
        c['events'] = events
    c['max_ticks'] = max_ticks if max_ticks is not None else len(words) + 4
    return c


def snapshot_case(case, tick):
    """the same run, restarted from a complete state dump taken just before 'tick'"""
    c = dict(case)
    c['max_ticks'] = tick
    b = StreamBoard(c, [])
    b.run()
    if b.tick != tick or b.cores[0].dead:
        return None
    old = case['cores'][0]
    spec = M.snapshot_core_spec(b.cores[0].arm, old)
    spec['words'] = old['words'][b.pos[0]:]
    spec['force'] = old.get('force')
    spec['no_poke'] = old.get('no_poke', [])
    n = dict(case)
    n['cores'] = [spec]
    n['events'] = [dict(e, tick=e['tick'] - tick) for e in case['events'] if e['tick'] >= tick]
    n['max_ticks'] = len(spec['words']) + 4
    return n


def shrink(case):
    """candidates: restart from a state dump just before the failure, truncate after the failing word, drop events,
    drop words from the front"""
    words = case['cores'][0]['words']
    n = len(words)
    if n > 1:
        res = run(case)
        if res['violations']:
            t = res['violations'][0]['tick']
            for back in (0, 1, 3):
                if t - back > 0:
                    c = snapshot_case(case, t - back)
                    if c is not None:
                        yield c
    for cut in (n // 2, n - n // 4, n - 1):
        if 0 < cut < n:
            yield _with_words(case, words[:cut])
    for k in (n // 2, n // 4, 8, 1):
        if 0 < k < n:
            yield _with_words(case, words[k:], [dict(e, tick=e['tick'] - k) for e in case['events'] if e['tick'] >= k])
    for i in range(len(case['events'])):
        yield _with_words(case, words, case['events'][:i] + case['events'][i + 1:], case['max_ticks'])
