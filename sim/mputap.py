"""TranslateTap: wraps ArmV6.translate_address on ONE instance (an instance attribute; nothing in /repo is touched) and compares the outcome of
every PMSA translation request made while real instructions execute - data accesses of every load/store form, every word of a multi-word
transfer, instruction fetches - with the MPU reference model evaluated on the region registers as they are at that moment.

What the model is given is the request as the architecture defines it: the address modulo 2^32 (addresses are 32-bit; armulator's own address
arithmetic occasionally hands over an unwrapped value), the privilege and direction the caller states.  A request the model denies must raise a
Data Abort of the model's kind; a request the model allows must return."""
import inspect

from . import machine as M
from .models import mpu as MPU


class TranslateTap:
    def __init__(self, board, ci=0, oracle='mpu.access', report=True):
        self.b, self.oracle, self.report = board, oracle, report
        arm = board.cores[ci].arm
        self.arm = arm
        self.installed = False
        self.calls = 0
        real = getattr(arm, 'translate_address', None)
        if not callable(real):
            board.count('probe.translate-tap-not-installed')
            return
        try:
            names = list(inspect.signature(real).parameters)
        except (TypeError, ValueError):
            names = []
        if names[:3] != ['va', 'ispriv', 'iswrite']:
            board.count('probe.translate-tap-not-installed')       # another interface than the pinned tree's: requests go unchecked rather than misread
            return
        self.installed = True
        tap = self

        def wrapper(va, ispriv, iswrite, *a, **k):
            want = tap.expect(va, ispriv, iswrite)
            try:
                out = real(va, ispriv, iswrite, *a, **k)
            except Exception as e:
                tap.outcome(want, va, ispriv, iswrite, e)
                raise
            tap.outcome(want, va, ispriv, iswrite, None)
            return out
        arm.translate_address = wrapper

    def expect(self, va, ispriv, iswrite):
        arm = self.arm
        r = arm.registers
        cfg = self.b.case['cores'][0].get('config') or {}
        if cfg.get('memory_system_architecture', 'PMSA') != 'PMSA' or not isinstance(va, int):
            return None
        s = r.sctlr.value
        regions = MPU.regions_from_arm(arm)
        return MPU.decide(regions, s & 1, (s >> 17) & 1, va & 0xFFFFFFFF, bool(ispriv), bool(iswrite))

    def outcome(self, want, va, ispriv, iswrite, exc):
        if want is None:
            return
        self.calls += 1
        dec, reg = want
        if dec == 'unpredictable':
            return
        got = 'ok'
        if exc is not None:
            at = getattr(exc, 'abort_type', None)
            nm = getattr(at, 'name', None)
            if type(exc).__name__ != 'DataAbortException' or nm not in ('PERMISSION', 'BACKGROUND'):
                return                   # alignment faults and host errors are other oracles' business
            got = 'perm' if nm == 'PERMISSION' else 'background'
        if got == dec:
            return
        b = self.b
        b.count('probe.translate-tap-mismatch')
        if self.report and not b.violations:
            name = type(getattr(self.arm, 'executed_opcode', None)).__name__
            b.violate(self.oracle, name[:-2] if name[-2:] in ('A1', 'A2', 'T1', 'T2', 'T3', 'T4') else name, '%s_instead_of_%s' % (got, dec),
                      'translation request va=%#x priv=%d write=%d while executing %s (word %#x): %s, the MPU model says %s (winning region %s)' % (
                          va, bool(ispriv), bool(iswrite), name, getattr(self.arm, 'opcode', 0) or 0, got, dec, reg))
