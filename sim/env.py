"""Process environment for the simulator: import armulator from the working tree under
test, silence (and count) its print('unpredictable') calls, keep byte-code out of /repo."""
import builtins
import os
import sys

REPO = os.environ.get('VERIF_REPO', '/repo')
GUARD = 'MATAN1008_ARMULATOR_VERIF'

_real_print = builtins.print
print_count = [0]


def _counting_print(*a, **k):
    print_count[0] += 1


def out(s):
    """the harness's own output channel (never goes through builtins.print)"""
    sys.stdout.write(s + '\n')
    sys.stdout.flush()


def err(s):
    sys.stderr.write(s + '\n')
    sys.stderr.flush()


_done = [False]


def setup():
    if _done[0]:
        return
    _done[0] = True
    sys.dont_write_bytecode = True
    os.environ.setdefault(GUARD, '1')
    if not sys.path or sys.path[0] != REPO:
        sys.path.insert(0, REPO)
    builtins.print = _counting_print
    import armulator
    got = os.path.realpath(os.path.dirname(armulator.__file__))
    want = os.path.realpath(os.path.join(REPO, 'armulator'))
    if got != want:
        raise RuntimeError('armulator imported from %s, expected %s' % (got, want))
