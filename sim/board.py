"""The simulated board: 1..n real ArmV6 cores, a discrete-event queue of faults, level-triggered
interrupt lines, WFI/WFE sleep with clock jumps, and a tick loop that calls observers."""
import hashlib
import os
import signal

from . import machine as M
from .machine import light, exc_site


class Hang(BaseException):
    """raised by the per-tick watchdog inside a step that does not return"""


def _on_alarm(signum, frame):
    raise Hang()


TICK_TIMEOUT = float(os.environ.get('VERIF_TICK_TIMEOUT', '20'))


def arm_watchdog():
    try:
        signal.signal(signal.SIGALRM, _on_alarm)
        return True
    except ValueError:      # not the main thread
        return False


class Core:
    def __init__(self, spec):
        self.spec = spec
        self.lines = {'irq': False, 'fiq': False}
        self.arm = M.new_arm(spec, self.lines)
        self.done_pc = spec.get('done_pc')
        self.finished = False
        self.dead = False          # a host error escaped: state is not trustworthy any more
        self.steps = 0

    def at_done(self):
        return self.done_pc is not None and self.arm.registers.pc_store_value() == self.done_pc


class Board:
    """case: {'cores': [core_spec...], 'events': [{'tick','core','kind',...}], 'schedule': [...], 'max_ticks': n}

    Observers are objects with optional methods
      on_tick(board, rec)   after every tick; rec = dict(tick, core, what, pre, post, pre_pc, exc, nie)
      on_event(board, ev, core, pre, post)   after every non-tick event (reset, pokes, register rewrites)
    """

    def __init__(self, case, observers=(), build_cores=True):
        self.case = case
        self.observers = list(observers)
        if build_cores and case.get('predecessor'):
            # another processor, built from another configuration, lives and dies before this board's instances are constructed (machine.run_predecessor)
            M.run_predecessor(case['predecessor'])
        self.cores = [Core(s) for s in case['cores']] if build_cores else []
        # a BYSTANDER: another processor constructed after this board's instances and alive for the whole run, from a configuration file that differs
        # from theirs only in items the library reads when a processor is constructed (the number of MPU regions, the memory list)
        self.bystanders = [M.new_arm({'config': s['bystander'], 'devices': [], 'reset': True}) for s in case['cores'] if s.get('bystander')] if build_cores else []
        self.events = sorted(enumerate(case.get('events', [])), key=lambda p: (p[1]['tick'], p[0]))
        self.ev_pos = 0
        self.schedule = case.get('schedule')
        self.max_ticks = case.get('max_ticks', 400)
        self.tick = 0
        self.log = hashlib.blake2b(digest_size=8)
        self.stats = {}
        self.violations = []
        self.cover = set()
        self.stop_at_done = case.get('stop_at_done', True)
        self.stop = False
        self.watchdog = arm_watchdog()
        self.sched_pos = 0

    # ---- bookkeeping helpers used by observers
    def count(self, key, n=1):
        self.stats[key] = self.stats.get(key, 0) + n

    def violate(self, oracle, site, cls, detail=''):
        self.violations.append({'oracle': oracle, 'site': site, 'cls': cls, 'detail': detail, 'tick': self.tick})

    # ---- events
    def apply_event(self, ev):
        core = self.cores[ev.get('core', 0)]
        arm = core.arm
        r = arm.registers
        kind = ev['kind']
        pre = light(arm)
        if kind in ('irq', 'fiq'):
            core.lines[kind] = True
            self.count('fault.%s-asserted' % kind)
        elif kind == 'reset':
            try:
                arm.take_reset()
            except NotImplementedError:
                self.count('nie.take_reset')
            except Exception as e:  # host error
                self._host_error(core, e, 'reset')
            arm.is_wait_for_interrupt = False
            arm.is_wait_for_event = False
            core.lines['irq'] = core.lines['fiq'] = False
            self.count('fault.reset')
        elif kind == 'sys':
            if 'index' in ev:
                cur = getattr(r, ev['name'])[ev['index']]
                if hasattr(cur, 'value'):
                    cur.value = ev['value']
                else:
                    getattr(r, ev['name'])[ev['index']] = ev['value']
            elif 'mask' in ev:
                old = M.get_sys(r, ev['name'])
                M.set_sys(r, ev['name'], (old & ~ev['mask']) | (ev['value'] & ev['mask']))
            else:
                M.set_sys(r, ev['name'], ev['value'])
            self.count('fault.%s' % ev.get('tag', 'sys-rewrite'))
        elif kind == 'poke':
            M.poke(arm, ev['addr'], bytes.fromhex(ev['hex']))
            self.count('fault.%s' % ev.get('tag', 'code-flip'))
        elif kind == 'xor':
            n = ev.get('size', 4)
            old = int.from_bytes(M.peek(arm, ev['addr'], n), 'little')
            M.poke(arm, ev['addr'], (old ^ ev['xor']).to_bytes(n, 'little'))
            self.count('fault.%s' % ev.get('tag', 'code-flip'))
        elif kind == 'cpsr':
            r.cpsr.value = (r.cpsr.value & ~ev['mask']) | (ev['value'] & ev['mask'])
            self.count('fault.%s' % ev.get('tag', 'priv-drop'))
        elif kind == 'sev':
            r.event_register = True
            self.count('fault.sev')
        elif kind == 'unmap':
            # the front-end unmaps devices: every controller behind the first 'keep' ones is taken out of the hub's public list
            del arm.mem.memories[ev.get('keep', 3):]
            self.count('fault.devices-unmapped')
        elif kind == 'regswap':
            # the integrator restores a checkpoint of the register file: arm.registers is REPLACED by a deep copy of itself (same state, another
            # object).  Whatever the processor does afterwards must be done to the register file it now has
            import copy
            from .entrymon import METHODS
            new = copy.deepcopy(r)
            for name in METHODS:
                new.__dict__.pop(name, None)         # (this harness's own wrappers on the old object do not travel)
            arm.registers = new
            for o in self.observers:
                if hasattr(o, 'install') and getattr(o, 'ci', 0) == ev.get('core', 0):
                    o.install(arm)
            self.count('fault.register-file-swap')
        else:
            raise ValueError('unknown event kind %r' % kind)
        post = light(arm)
        self.log.update(repr(('E', self.tick, ev.get('core', 0), kind, post)).encode())
        for o in self.observers:
            f = getattr(o, 'on_event', None)
            if f:
                f(self, ev, core, pre, post)

    def _host_error(self, core, e, what):
        name, site = exc_site(e)
        core.dead = True
        self.count('hosterr.%s@%s' % (name, site))
        self.host_errors.append((what, name, site, repr(e)[:200]))

    host_errors = None

    # ---- one tick of one core
    def step_core(self, ci):
        core = self.cores[ci]
        arm = core.arm
        r = arm.registers
        # wake-up: a pending interrupt ends WFI (masked or not) and WFE
        if arm.is_wait_for_interrupt or arm.is_wait_for_event:
            if core.lines['irq'] or core.lines['fiq'] or (arm.is_wait_for_event and r.event_register):
                if arm.is_wait_for_event and r.event_register:
                    r.event_register = False
                arm.is_wait_for_interrupt = False
                arm.is_wait_for_event = False
                self.count('probe.wakeup')
        pre = light(arm)
        pre_pc = r.pc_store_value()
        self.step_serial = getattr(self, 'step_serial', 0) + 1          # identifies this step for observers (entries taken through the API happen outside any step)
        self.in_step = True
        rec = {'tick': self.tick, 'core': ci, 'pre': pre, 'pre_pc': pre_pc, 'exc': None, 'nie': None, 'what': 'step', 'serial': self.step_serial}
        cpsr = pre[1]
        try:
            if core.lines['fiq'] and not (cpsr >> 6) & 1:
                rec['what'] = 'fiq'
                r.take_physical_fiq_exception()
                self.count('fault.fiq-delivered')
            elif core.lines['irq'] and not (cpsr >> 7) & 1:
                rec['what'] = 'irq'
                r.take_physical_irq_exception()
                self.count('fault.irq-delivered')
            else:
                if self.watchdog:
                    signal.setitimer(signal.ITIMER_REAL, TICK_TIMEOUT)
                try:
                    arm.emulate_cycle()
                finally:
                    if self.watchdog:
                        signal.setitimer(signal.ITIMER_REAL, 0)
                core.steps += 1
        except Hang:
            rec['exc'] = ('Hang', 'emulate_cycle', 'step did not return within %gs' % TICK_TIMEOUT)
            core.dead = True
            self.count('hosterr.Hang')
        except NotImplementedError as e:
            name, site = exc_site(e)
            if not M.nie_declared(e):
                # not one of the explicitly unimplemented hooks: a host-level failure like any other
                rec['exc'] = ('NotImplementedError', site, 'NotImplementedError raised outside the declared-unimplemented hooks')
                core.dead = True
                self.count('hosterr.NotImplementedError@%s' % site)
            rec['nie'] = site
            self.count('nie.' + site)
            # documented "unimplemented": the board skips the instruction like a NOP
            if rec['what'] == 'step' and r.pc_store_value() == pre_pc:
                ln = arm.opcode_len // 8 if arm.opcode_len in (16, 32) else 4
                r._R[M.RName.PC] = (pre_pc + ln) & M.M32
                if (r.cpsr.value >> 5) & 1 and r.cpsr.it & 0xf:
                    r.it_advance()
        except Exception as e:  # anything else is a host-level error
            name, site = exc_site(e)
            rec['exc'] = (name, site, repr(e)[:160])
            core.dead = True
            self.count('hosterr.%s@%s' % (name, site))
        self.in_step = False
        rec['post'] = light(arm)
        self.log.update(repr((self.tick, ci, rec['what'], rec['post'], rec['nie'], rec['exc'] and rec['exc'][:2])).encode())
        for o in self.observers:
            f = getattr(o, 'on_tick', None)
            if f:
                f(self, rec)
        if core.at_done() and not core.lines['irq'] and not core.lines['fiq']:
            core.finished = True
        return rec

    def runnable(self, ci):
        c = self.cores[ci]
        if c.dead or (c.finished and self.stop_at_done):
            return False
        arm = c.arm
        if arm.is_wait_for_interrupt:
            return c.lines['irq'] or c.lines['fiq']
        if arm.is_wait_for_event:
            return c.lines['irq'] or c.lines['fiq'] or bool(arm.registers.event_register)
        return True

    def advance(self):
        """one iteration of the scheduler loop: deliver due events, then one tick of one core (or a clock jump).
        Returns False when the run is over."""
        if self.host_errors is None:
            self.host_errors = []
        if M.PENDING:
            for c in self.cores:
                M.finish(c.arm)          # (instances whose set-up was deferred are loaded when their board first runs)
        if self.tick >= self.max_ticks or self.stop:
            return False
        while self.ev_pos < len(self.events) and self.events[self.ev_pos][1]['tick'] <= self.tick:
            self.apply_event(self.events[self.ev_pos][1])
            self.ev_pos += 1
        cand = [i for i in range(len(self.cores)) if self.runnable(i)]
        if not cand:
            # everything asleep/finished: jump the clock to the next event, or stop
            if self.ev_pos < len(self.events) and self.pending_work():
                self.tick = max(self.tick, self.events[self.ev_pos][1]['tick'])
                self.count('probe.clock-jump')
                return True
            return False
        if len(self.cores) == 1:
            ci = 0
        elif self.schedule is not None:
            want = self.schedule[self.sched_pos % len(self.schedule)] if self.schedule else 0
            self.sched_pos += 1
            ci = want if want in cand else cand[0]
        else:
            ci = cand[self.tick % len(cand)]
        self.step_core(ci)
        self.tick += 1
        return True

    def pending_work(self):
        return any(not c.dead and not (c.finished and self.stop_at_done) for c in self.cores)

    def run(self):
        while self.advance():
            pass
        return self

    def digest(self):
        return self.log.hexdigest()
