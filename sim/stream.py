"""StreamBoard: a Board whose cores are fed one instruction word per tick at the current PC (stream mode),
with 'regime' events that re-install mode / ISA / IT / system-register state."""
from . import machine as M
from .board import Board
from .gen import CODE, CODE_SZ


EDGE_OPERANDS = [0, 1, 2, 31, 32, 33, 255, 256, 0x7FFF, 0x8000, 0xFFFF, 0x10000, 0x7FFFFFFF, 0x80000000, 0x80000001, 0xFFFFFFFF, 0xFFFFFFFE,
                 0x00FF00FF, 0x80008000, 0x7FFF7FFF, 0xFF, 0x80, 0x7F]


class StreamBoard(Board):
    """core spec extras: 'words': [...32-bit stream entries], 'force': {'it': v|None} or None, 'no_poke_below': addr"""

    def __init__(self, case, observers=(), build_cores=True):
        super().__init__(case, observers, build_cores)
        self.pos = [0] * len(case['cores'])

    def apply_event(self, ev):
        if ev['kind'] == 'regime':
            arm = self.cores[ev.get('core', 0)].arm
            pc = arm.registers.pc_store_value()
            M.load_state(arm, ev['regs'])
            arm.registers._R[M.RName.PC] = pc & (~1 if (ev['regs']['cpsr'] >> 5) & 1 else ~3) & M.M32
            self.count('fault.regime-change')
            self.log.update(repr(('E', self.tick, 'regime')).encode())
            return
        super().apply_event(ev)

    def pending_work(self):
        return any(self.runnable(i) for i in range(len(self.cores)))

    def runnable(self, ci):
        if self.pos[ci] >= len(self.case['cores'][ci].get('words', ())):
            return False
        c = self.cores[ci]
        return not c.dead

    def step_core(self, ci):
        core = self.cores[ci]
        spec = self.case['cores'][ci]
        arm = core.arm
        r = arm.registers
        words = spec['words']
        pos = self.pos[ci]
        w = words[pos]
        self.pos[ci] = pos + 1
        cfg = spec.get('config') or {}
        if r.cpsr.j and not ((cfg.get('have_thumbee') and r.cpsr.t) or (cfg.get('have_jazelle') and not r.cpsr.t)):
            # Jazelle / ThumbEE state is only a valid machine state when the configuration has the extension
            r.cpsr.j = 0
            self.count('probe.j-cleared')
        if arm.is_wait_for_interrupt or arm.is_wait_for_event:
            arm.is_wait_for_interrupt = arm.is_wait_for_event = False
            self.count('probe.sleep-cancelled')
        force = spec.get('force')
        if force is not None and not force.get('thumb', 1):
            r.cpsr.t = 0
            r.cpsr.it = 0
        elif force is not None:
            r.cpsr.t = 1
            if force['it'] is None:
                p = pos + 1
                r.cpsr.it = ((p * 37) & 0xF0) | [0x4, 0xC, 0x2, 0xA, 0x6, 0xE, 0x1, 0x3, 0x5, 0x7, 0x9, 0xB, 0xD, 0xF][p % 14]
            else:
                r.cpsr.it = force['it']
        if force is not None and force.get('ptr_regs'):
            # every general-purpose register (and the current SP) reloaded with a pointer from the list: a pure function of the position
            pl = force['ptr_regs']
            for i in range(14):
                r.set(i, pl[(pos * 7 + i * 5 + (pos >> 3)) % len(pl)])
        if force is not None and force.get('edge_regs') and (pos * 5 + force['edge_regs']) % 3:
            # operand values at the edges of the 32-bit range (a pure function of the position in the word list)
            for i in range(13):
                r.set(i, EDGE_OPERANDS[(pos * 7 + i * 11 + force['edge_regs'] * 3 + (pos >> 4) * i) % len(EDGE_OPERANDS)])
        pc = r.pc_store_value()
        thumb = (r.cpsr.value >> 5) & 1
        pc &= ~1 if thumb else ~3
        ok = False
        nopoke = spec.get('no_poke', ())
        for mc in arm.mem.memories:
            if mc.beginning <= pc and pc + 4 <= mc.end and hasattr(mc.mem, 'memory_array') and mc.beginning not in nopoke:
                ok = True
        if not ok:
            pc = CODE + ((pos + 1) * 8) % (CODE_SZ - 8)
            self.count('probe.reseat')
        r._R[M.RName.PC] = pc
        data = (w >> 16).to_bytes(2, 'little') + (w & 0xFFFF).to_bytes(2, 'little') if thumb else w.to_bytes(4, 'little')
        if spec.get('twin') and (pos * 2654435761 >> 7) % 100 < spec['twin'] and not core.lines['irq'] and not core.lines['fiq']:
            self.twin_step(arm, w, pc, thumb)
        M.poke(arm, pc, data)
        self.after_poke(ci)
        return super().step_core(ci)

    def twin_step(self, arm, w, pc, thumb):
        """fault 'twin': the SAME 32-bit value is first executed once under the OTHER instruction set state (as an ARM word / as hw1:hw2), then
        the complete architectural state and all memory are put back, and only then the tick proper runs.  On a processor whose step is a function
        of its state the detour is invisible; anything it leaves behind outside the state (a decode or translation memo keyed by the word) is not."""
        r = arm.registers
        save = M.dump_state(arm)
        mems = [(mc.mem, bytes(mc.mem.memory_array)) for mc in arm.mem.memories if M.flat(mc.mem) is not None and len(mc.mem.memory_array) <= (1 << 20)]
        waits = (arm.is_wait_for_event, arm.is_wait_for_interrupt)
        ctrls = list(arm.mem.memories)
        self.twin_active = True
        try:
            arm.mem.memories[:] = [mc for mc in ctrls if M.flat(mc.mem) is not None and type(mc.mem).__name__ == 'RAM']      # (no device with side effects is reachable from the detour)
            r.cpsr.t = 0 if thumb else 1
            r.cpsr.it = 0
            data = w.to_bytes(4, 'little') if thumb else (w >> 16).to_bytes(2, 'little') + (w & 0xFFFF).to_bytes(2, 'little')
            M.poke(arm, pc, data)
            r._R[M.RName.PC] = pc
            try:
                arm.emulate_cycle()
            except Exception:
                pass                      # (whatever the detour does - exception entry, unimplemented hook, host error - is not this tick's subject)
            self.count('fault.twin-other-isa')
        finally:
            self.twin_active = False
            arm.mem.memories[:] = ctrls
            M.load_state(arm, save)
            for m, bts in mems:
                m.memory_array[:] = bts
            arm.is_wait_for_event, arm.is_wait_for_interrupt = waits

    def after_poke(self, ci):
        """hook: the word of this tick is in memory, nothing has executed yet"""
        pass
