"""Building real ArmV6 instances from explicit, JSON-able specifications, loading and
snapshotting their complete state, stub devices (recording RAM, interrupt controller)."""
import atexit
import hashlib
import json
import os
import shutil
import tempfile
import traceback

from . import env

env.setup()

from armulator.armv6.arm_v6 import ArmV6  # noqa: E402
from armulator.armv6 import configurations as _cfgmod  # noqa: E402
from armulator.armv6.memory_types import RAM, MemoryType  # noqa: E402
from armulator.armv6.memory_controller_hub import MemoryController  # noqa: E402
from armulator.armv6.all_registers.abstract_register import AbstractRegister  # noqa: E402
from armulator.armv6.registers import RName  # noqa: E402

M32 = 0xFFFFFFFF
MODES = {'usr': 0x10, 'fiq': 0x11, 'irq': 0x12, 'svc': 0x13, 'mon': 0x16, 'abt': 0x17, 'hyp': 0x1a,
         'und': 0x1b, 'sys': 0x1f}
MODE_NAMES = {v: k for k, v in MODES.items()}
SPSR_MODES = ['fiq', 'irq', 'svc', 'mon', 'abt', 'hyp', 'und']
RNAMES = [n.name for n in RName]

with open(os.path.join(env.REPO, 'armulator', 'armv6', 'arm_configurations.json')) as _f:
    BASE_CFG = json.load(_f)

_scratch = {'dir': None, 'pid': None, 'cache': {}}


def _cleanup():
    if _scratch['dir'] and _scratch['pid'] == os.getpid():
        shutil.rmtree(_scratch['dir'], ignore_errors=True)


atexit.register(_cleanup)


def scratch_dir():
    if _scratch['dir'] is None or _scratch['pid'] != os.getpid():
        # a forked worker gets its own directory and its own cache
        _scratch['dir'] = tempfile.mkdtemp(prefix='armverif-')
        _scratch['pid'] = os.getpid()
        _scratch['cache'] = {}
    return _scratch['dir']


def full_config(overrides):
    cfg = json.loads(json.dumps(BASE_CFG))
    cfg['memory_list'] = []
    for k, v in (overrides or {}).items():
        if k == 'sctlr_reset':
            cfg['reset_values']['SCTLR'] = bin(v)
        elif k == 'reset_values':
            cfg['reset_values'].update(v)
        else:
            cfg[k] = v
    return cfg


def config_path(overrides, alias=None):
    cfg = full_config(overrides)
    text = json.dumps(cfg, sort_keys=True)
    if alias is not None:
        # one file NAME for successive configurations (a build tree that regenerates its configuration in place): rewritten on every call, always the
        # same length and the same modification time, so that name, size and time stamp say nothing about the contents
        p = os.path.join(scratch_dir(), 'cfg-alias-%s.json' % alias)
        with open(p, 'w') as f:
            f.write(text.ljust(16384))
        os.utime(p, (1000000000, 1000000000))
        return p
    key = hashlib.blake2b(text.encode(), digest_size=8).hexdigest()
    d = scratch_dir()
    p = _scratch['cache'].get(key)
    if p is None:
        p = os.path.join(d, 'cfg-%s.json' % key)
        with open(p, 'w') as f:
            f.write(text)
        _scratch['cache'][key] = p
    return p


def point_global_config_at(overrides):
    """the 'cfg-switch' workaround of C20: re-load the module-level configuration"""
    _cfgmod.configurations.load(config_path(overrides))


# ---------------------------------------------------------------- devices

class RecRAM(RAM):
    """RAM that records every device-level access: (offset, size, is_write)."""

    def __init__(self, size):
        super().__init__(size)
        self.log = []

    def read(self, address, size):
        self.log.append((address, size, 0))
        return super().read(address, size)

    def write(self, address, size, value):
        self.log.append((address, size, 1))
        super().write(address, size, value)


class KeepRAM(RAM):
    """RAM that also keeps the last data objects its write() was handed (as a FIFO or latch would), with a copy of their bytes at that moment."""

    def __init__(self, size):
        super().__init__(size)
        self.kept = []

    def write(self, address, size, value):
        self.kept.append((value, bytes(value)))
        del self.kept[:-12]
        super().write(address, size, value)

    def __deepcopy__(self, memo):
        new = KeepRAM(self.size)                 # (a checkpoint holds the memory contents, not the objects in flight)
        new.memory_array[:] = self.memory_array
        return new


class Intc(MemoryType):
    """Interrupt controller page.  Word 0: write = de-assert IRQ line; word 1 (offset 4): write =
    de-assert FIQ line.  Reads return the line status.  'lines' is owned by the board."""

    def __init__(self, size, lines=None):
        super().__init__(size)
        self.lines = lines if lines is not None else {'irq': False, 'fiq': False}
        self.acks = []
        self.on_grant = None
        self.on_patch = None

    def read(self, address, size):
        v = (1 if self.lines['irq'] else 0) | (2 if self.lines['fiq'] else 0)
        return (v.to_bytes(8, 'little'))[:size] if address < 8 else bytes(size)

    def write(self, address, size, value):
        if address < 4:
            self.lines['irq'] = False
            self.acks.append('irq')
        elif address < 8:
            self.lines['fiq'] = False
            self.acks.append('fiq')
        elif address < 12:
            # supervisor call from an abort handler: "grant the access that just faulted"
            self.acks.append('grant')
            if self.on_grant is not None:
                self.on_grant()
        elif address < 16:
            # supervisor call from an undefined-instruction handler: "patch the faulting instruction into a NOP"
            self.acks.append('patch')
            if self.on_patch is not None:
                self.on_patch()


def make_device(d, lines=None):
    size = d['end'] - d['begin']
    kind = d.get('kind', 'ram')
    if kind == 'intc':
        return Intc(size, lines)
    dev = RecRAM(size) if kind == 'rec' else RAM(size)
    fill_device(dev, d)
    return dev


def fill_device(dev, d):
    size = d['end'] - d['begin']
    for off, hx in (d.get('data') or {}).items():
        b = bytes.fromhex(hx)
        off = int(off)
        if flat(dev) is None:
            dev.write(off, len(b), b)         # (a device that keeps its bytes otherwise than in one bytearray: through its own interface)
        else:
            dev.memory_array[off:off + len(b)] = b
    if 'fill' in d:
        dev.memory_array[:] = bytes.fromhex(d['fill']) * (size // max(1, len(d['fill']) // 2))


class ConstructionMismatch(RuntimeError):
    """the library did not build the memory its configuration file declares"""


PENDING = {}          # id(ArmV6) -> set-up still to be done (core specs with 'defer_setup': the constructor has run, nothing else has)


def new_arm(core_spec, lines=None):
    """core_spec: {'config': overrides, 'devices': [...], 'regs': state, 'reset': bool}"""
    from . import solo as _solo
    _solo.constructed[0] += 1
    arm = ArmV6(config_path(core_spec.get('config'), core_spec.get('config_alias')))

    def setup():
        taken = set()
        for d in core_spec.get('devices', []):
            if d.get('in_config'):
                # declared in the configuration file's memory_list: the library has built the controller itself; only the contents are loaded
                for i, mc in enumerate(arm.mem.memories):
                    if i not in taken and mc.beginning == d['begin'] and mc.end == d['end']:
                        taken.add(i)
                        fill_device(mc.mem, d)
                        break
                else:
                    raise ConstructionMismatch('memory_list entry [%#x, %#x) was not constructed by the library' % (d['begin'], d['end']))
                continue
            arm.mem.memories.append(MemoryController(make_device(d, lines), d['begin'], d['end']))
        if core_spec.get('reset', True):
            arm.take_reset()
        load_state(arm, core_spec.get('regs') or {})
        if core_spec.get('monitors_pass') and hasattr(arm, 'is_exclusive_local') and hasattr(arm, 'is_exclusive_global'):
            arm.is_exclusive_local = lambda *a, **k: True
            arm.is_exclusive_global = lambda *a, **k: True
        cfg_ = core_spec.get('config') or {}
        if core_spec.get('custom_fetch') and not (cfg_.get('have_thumbee') or cfg_.get('have_jazelle')):
            install_custom_fetch(arm)
    if core_spec.get('defer_setup'):
        # the bench constructs its processors first and loads them later (finish(), called by the board before the instance's first tick)
        PENDING[id(arm)] = (arm, setup)
    else:
        setup()
    return arm


def install_custom_fetch(arm):
    """An integrator's fetch unit: ArmV6.fetch_instruction overridden (here on the instance; the project's own test fixtures do it in a subclass) by
    a routine that reads the instruction bytes itself - straight from the devices, little-endian - and leaves them in arm.opcode / arm.opcode_len
    as the stock routine does.  Everything behind the fetch must work as before; nothing may depend on the stock routine having run."""
    def fetch():
        r = arm.registers
        pc = r.pc_store_value()
        if (r.cpsr.value >> 5) & 1:
            hw1 = int.from_bytes(peek(arm, pc, 2).ljust(2, b'\0'), 'little')
            if hw1 >> 11 in (0b11101, 0b11110, 0b11111):
                hw2 = int.from_bytes(peek(arm, (pc + 2) & M32, 2).ljust(2, b'\0'), 'little')
                arm.opcode, arm.opcode_len = hw1 << 16 | hw2, 32
            else:
                arm.opcode, arm.opcode_len = hw1, 16
        else:
            arm.opcode, arm.opcode_len = int.from_bytes(peek(arm, pc, 4).ljust(4, b'\0'), 'little'), 32
        return arm.opcode
    arm.fetch_instruction = fetch


def finish(arm):
    p = PENDING.pop(id(arm), None)
    if p is not None:
        p[1]()


def device_at(arm, begin):
    for mc in arm.mem.memories:
        if mc.beginning == begin:
            return mc.mem
    raise KeyError(begin)


def flat(dev):
    """the device's backing bytearray, or None when it keeps its bytes some other way"""
    a = getattr(dev, 'memory_array', None)
    return a if isinstance(a, (bytearray, bytes)) else None


def poke(arm, addr, data):
    """write bytes at a physical address straight into the backing device(s) (no MPU, no log).  Each byte goes to the first controller whose window
    holds its address - a word placed across the end of a small window continues in whatever is mapped behind it - and never past a device's end"""
    done = False
    while data:
        for mc in arm.mem.memories:
            if mc.beginning <= addr < mc.end and hasattr(mc.mem, 'memory_array'):
                off = addr - mc.beginning
                n = max(0, min(len(data), mc.end - addr, mc.mem.size - off))
                if n == 0:
                    n = min(len(data), mc.end - addr)        # (window larger than its device: nothing to write there)
                elif flat(mc.mem) is None:
                    mc.mem.write(off, n, bytes(data[:n]))
                else:
                    mc.mem.memory_array[off:off + n] = data[:n]
                done = True
                break
        else:
            n = 1                                            # unmapped byte
        addr += n
        data = data[n:]
    return done


def peek(arm, addr, n):
    for mc in arm.mem.memories:
        if mc.beginning <= addr < mc.end and hasattr(mc.mem, 'memory_array'):
            off = addr - mc.beginning
            if flat(mc.mem) is None:
                return bytes(mc.mem.read(off, n))
            return bytes(mc.mem.memory_array[off:off + n])
    return bytes(n)


# ---------------------------------------------------------------- state

def set_sys(r, name, v):
    cur = getattr(r, name)
    if isinstance(cur, AbstractRegister):
        cur.value = v
    elif isinstance(cur, list):
        for i, x in enumerate(v):
            if i < len(cur):
                if isinstance(cur[i], AbstractRegister):
                    cur[i].value = x
                else:
                    cur[i] = x
    else:
        setattr(r, name, v)


def get_sys(r, name):
    cur = getattr(r, name)
    if isinstance(cur, AbstractRegister):
        return cur.value
    if isinstance(cur, list):
        return [x.value if isinstance(x, AbstractRegister) else x for x in cur]
    return cur


def load_state(arm, st):
    r = arm.registers
    for name, v in (st.get('sys') or {}).items():
        set_sys(r, name, v)
    for name, v in (st.get('R') or {}).items():
        r._R[RName[name]] = v
    for m, v in (st.get('spsr') or {}).items():
        setattr(r, 'spsr_' + m, v)
    if 'elr_hyp' in st:
        r.elr_hyp = st['elr_hyp']
    if 'cpsr' in st:
        r.cpsr.value = st['cpsr']
    if 'pc' in st:
        r._R[RName.PC] = st['pc']
    if 'event_register' in st:
        r.event_register = st['event_register']


def light(arm):
    """cheap architectural snapshot (tuple): 34 registers, cpsr, 7 spsrs, elr_hyp, dfsr, dfar, scr, waits"""
    r = arm.registers
    R = r._R
    return (tuple(R.values()), r.cpsr.value,
            (r.spsr_fiq, r.spsr_irq, r.spsr_svc, r.spsr_mon, r.spsr_abt, r.spsr_hyp, r.spsr_und),
            r.elr_hyp, r.dfsr.value, r.dfar, r.scr.value,
            (bool(arm.is_wait_for_event), bool(arm.is_wait_for_interrupt), bool(r.event_register)))


def regs_dict(arm):
    return {n.name: v for n, v in arm.registers._R.items()}


def sys_state(arm, skip=('_R', 'cpsr', 'changed_registers')):
    """every attribute of Registers except the general-purpose file and CPSR, as plain values"""
    r = arm.registers
    d = {}
    for k in sorted(vars(r)):
        if k in skip:
            continue
        v = getattr(r, k)
        if isinstance(v, AbstractRegister):
            d[k] = v.value
        elif isinstance(v, list):
            d[k] = tuple(x.value if isinstance(x, AbstractRegister) else x for x in v)
        else:
            d[k] = v
    return d


# Plain (int / bool) attributes of Registers that are architectural state on the pinned tree.  Register objects and lists of them are always
# architectural; any OTHER plain attribute (it_state_restored today, whatever bookkeeping a later change adds) is per-step bookkeeping: a
# snapshot 'rebuilt from architectural state' does not carry it and the architectural comparison does not look at it
ARCH_PLAIN = frozenset('''actlr cbor ccr cdsr clear_dmaer contextidr cr0 cr1 ctr dclr dfar dmacidr dmacnr dmacr dmacsr dmaesar dmaiear dmaisar dmaisir dmaispr
dmaisqr dmaisrr dmauar dtcm_nsacr dtcmrr elr_hyp event_register hdfar hmair0 hmair1 httbr hvbar iclr id_afr0 id_dfr0 id_isar0 id_isar1 id_isar2 id_isar3
id_isar4 id_isar5 id_mmfr0 id_mmfr1 id_mmfr2 id_mmfr3 id_pfr0 ifar ifsr isr itcm_nsacr mair0 mair1 mvbar par ppmrr spsr_abt spsr_fiq spsr_hyp spsr_irq spsr_mon
spsr_svc spsr_und start_dmaer stop_dmaer svcr_edrc svcr_fic svcr_ic svcr_rc svcsmr tcmsr tcmtr teehbr tlblr tlbtr tpidrprw tpidruro tpidrurw ttbr0 ttbr0_64
ttbr1 ttbr1_64 vttbr'''.split())


def is_bookkeeping(r, name):
    v = getattr(r, name)
    if name == 'changed_registers':
        return True
    if isinstance(v, AbstractRegister) or (isinstance(v, list) and name != 'changed_registers') or name == '_R':
        return False
    return name not in ARCH_PLAIN


def full_state(arm, hidden=True):
    """complete state as a flat dict; hidden=True adds the per-step bookkeeping attributes"""
    r = arm.registers
    d = {'R.' + n.name: v for n, v in r._R.items()}
    d['n_regs'] = len(r._R)
    d['cpsr'] = r.cpsr.value
    for k, v in sys_state(arm).items():
        if hidden or not is_bookkeeping(r, k):
            d['sys.' + k] = v
    d['wfe'] = bool(arm.is_wait_for_event)
    d['wfi'] = bool(arm.is_wait_for_interrupt)
    for i, mc in enumerate(arm.mem.memories):
        m = mc.mem
        if flat(m) is not None:
            d['mem.%d' % i] = hashlib.blake2b(bytes(m.memory_array), digest_size=8).hexdigest()
            d['memlen.%d' % i] = len(m.memory_array)
    if hidden:
        d['changed'] = tuple(bool(x) for x in r.changed_registers)
        d['opcode'] = arm.opcode
        d['opcode_len'] = arm.opcode_len
        d['executed'] = type(arm.executed_opcode).__name__
    return d


def digest_of(obj):
    return hashlib.blake2b(repr(obj).encode(), digest_size=8).hexdigest()


def dump_state(arm, arch_only=False):
    """a 'regs' spec that load_state() accepts, holding the complete architectural state (arch_only: and nothing else, see ARCH_PLAIN)"""
    r = arm.registers
    st = {'R': regs_dict(arm), 'cpsr': r.cpsr.value,
          'spsr': {m: getattr(r, 'spsr_' + m) for m in SPSR_MODES}, 'elr_hyp': r.elr_hyp,
          'event_register': bool(r.event_register), 'sys': {}}
    for k in sorted(vars(r)):
        if k in ('_R', 'cpsr', 'changed_registers', 'event_register', 'elr_hyp') or k.startswith('spsr_'):
            continue
        if arch_only and is_bookkeeping(r, k):
            continue
        v = get_sys(r, k)
        st['sys'][k] = v
    return st


import random as _random


def run_predecessor(pre):
    """the life of the predecessor instance (see gen_bank): a 'dump all banks' of all 32 mode numbers, writes in the modes legal for ITS configuration"""
    arm = new_arm({'config': pre['config'], 'devices': [], 'regs': {}})
    r = arm.registers
    cfg = full_config(pre['config'])
    legal = set([0x10, 0x11, 0x12, 0x13, 0x17, 0x1b, 0x1f] + ([0x16] if cfg['have_security_ext'] else []) + ([0x1a] if cfg['have_virt_ext'] else []))
    rng = _random.Random(pre["seed"])
    for mode in [0x10, 0x11, 0x12, 0x13, 0x16, 0x17, 0x1a, 0x1b, 0x1f] + [rng.randrange(32) for _ in range(4)]:
        for n in range(15):
            try:
                r.get_rmode(n, mode)                       # reading is harmless even for a mode this configuration lacks (at worst UNKNOWN data)
                if mode in legal and (mode != 0x16 or not r.scr.value & 1):
                    r.set_rmode(n, mode, rng.getrandbits(32))
            except Exception:
                pass                                       # (a host error here is C18's subject and is found there)
    for mode in range(32):
        try:
            r.cpsr_write_by_instr(mode | 0xC0, 0b0001, False)       # what a guest's MSR CPSR_c does: legal numbers are installed, the others refused
        except Exception:
            pass
    for mode in sorted(legal):
        r.cpsr.value = (r.cpsr.value & ~0x1F) | mode
        for n in range(15):
            r.set(n, r.get(n) ^ 0xFFFF)
        if mode not in (0x10, 0x1f):
            r.set_spsr(r.get_spsr())



# ---------------------------------------------------------------- host-error classification

ARCH_OK = ('NotImplementedError',)


def exc_site(exc):
    """(type name, 'file:function' of the innermost armulator frame)"""
    site = '?'
    for fr in traceback.extract_tb(exc.__traceback__):
        fn = fr.filename
        if '/armulator/' in fn:
            site = '%s:%s' % (fn.split('/armulator/', 1)[1], fr.name)
    return type(exc).__name__, site


# The functions of the pinned tree that raise NotImplementedError: the explicitly unimplemented hooks (coprocessor, barrier, hint, event, debug, cache
# maintenance mocks of arm_v6.py, hub.set_bits) and the decoder rows of unimplemented extensions.  C18 accepts NotImplementedError as the documented
# outcome of THOSE; the same exception raised from anywhere else is a host-level failure like any other (an 'else: raise NotImplementedError' added to
# an opcode must not pass as "documented").  A hook that is merely renamed still qualifies: a function whose whole body is the raise is a mock.
NIE_SITES = frozenset(('armv6/arm_v6.py:' + ' armv6/arm_v6.py:'.join('''bkpt_instr_debug_event coproc_done_loading coproc_done_storing coproc_get_one_word
coproc_get_two_words coproc_get_word_to_store coproc_internal_operation coproc_send_loaded_word coproc_send_one_word coproc_send_two_words cp14_debug_instr_decode
cp14_jazelle_instr_decode cp14_trace_instr_decode cp15_instr_decode cpx_instr_decode data_synchronization_barrier hint_preload_data hint_preload_data_for_write
hint_yield instr_is_pl0_undefined instruction_synchronization_barrier remap_regs_have_reset_values send_event switch_to_jazelle_execution
tlb_lookup_came_from_cache_maintenance'''.split())).split() + ['armv6/memory_controller_hub.py:set_bits', 'armv6/opcodes/abstract_opcodes/bxj.py:execute'])


def nie_declared(exc):
    """is this NotImplementedError one of the explicitly unimplemented features?"""
    tb = exc.__traceback__
    inner = None
    while tb is not None:
        if '/armulator/' in tb.tb_frame.f_code.co_filename:
            inner = tb.tb_frame
        tb = tb.tb_next
    if inner is None:
        return True                      # raised by the harness's own stubs
    fn = inner.f_code.co_filename.split('/armulator/', 1)[1]
    site = '%s:%s' % (fn, inner.f_code.co_name)
    if site in NIE_SITES or (fn.startswith('armv6/opcodes/decoders/') and inner.f_code.co_name == 'decode_instruction'):
        return True
    try:
        import ast
        import inspect
        import textwrap
        body = ast.parse(textwrap.dedent(inspect.getsource(inner.f_code))).body[0].body
        body = [n for n in body if not (isinstance(n, ast.Expr) and isinstance(getattr(n, 'value', None), ast.Constant))]
        return len(body) == 1 and isinstance(body[0], ast.Raise)
    except Exception:
        return False


def dump_devices(arm, template):
    """device specs holding the current bytes (sparse 32-byte chunks); kinds/ranges taken from 'template'"""
    out = []
    for d, mc in zip(template, arm.mem.memories):
        nd = {'kind': d.get('kind', 'ram'), 'begin': d['begin'], 'end': d['end']}
        if d.get('in_config'):
            nd['in_config'] = True
        m = mc.mem
        if flat(m) is not None:
            data = {}
            arr = bytes(m.memory_array)
            for off in range(0, len(arr), 32):
                ch = arr[off:off + 32]
                if ch.strip(b'\0'):
                    data[str(off)] = ch.hex()
            if data:
                nd['data'] = data
        out.append(nd)
    return out


def snapshot_core_spec(arm, spec, arch_only=False):
    """a core spec that rebuilds exactly the current architectural state and memory of 'arm'"""
    return {'config': spec.get('config'), 'devices': dump_devices(arm, spec.get('devices', [])), 'regs': dump_state(arm, arch_only),
            'reset': False, 'done_pc': spec.get('done_pc'), 'custom_fetch': spec.get('custom_fetch'), 'bystander': spec.get('bystander'), 'monitors_pass': spec.get('monitors_pass')}
