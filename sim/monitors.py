"""Model-free monitors evaluated on every tick (DESIGN 3.2)."""
from . import machine as M
from .machine import RNAMES, SPSR_MODES

U32 = 0xFFFFFFFF


def opname(arm):
    op = arm.executed_opcode
    return type(op).__name__ if op is not None else 'None'


class RangeMonitor:
    """M-range (C10): every general-purpose register, SPSR, PC, CPSR, ELR_hyp is an int in 0..2^32-1; the PC is
    halfword aligned in Thumb state and word aligned in ARM state; the register file keeps its 34 entries."""

    def __init__(self, report=True, prop_oracle='range'):
        self.report = report
        self.oracle = prop_oracle

    def check_light(self, b, post, what, arm):
        bad = []
        regs = post[0]
        if len(regs) != 34:
            bad.append(('regfile_size', 'register file has %d entries' % len(regs)))
        for n, v in zip(RNAMES, regs):
            if type(v) is not int or not 0 <= v <= U32:
                bad.append(('reg_out_of_range', '%s = %r' % (n, v)))
        cpsr = post[1]
        if type(cpsr) is not int or not 0 <= cpsr <= U32:
            bad.append(('cpsr_out_of_range', 'cpsr = %r' % (cpsr,)))
        for n, v in zip(SPSR_MODES, post[2]):
            if type(v) is not int or not 0 <= v <= U32:
                bad.append(('spsr_out_of_range', 'spsr_%s = %r' % (n, v)))
        if type(post[3]) is not int or not 0 <= post[3] <= U32:
            bad.append(('elr_out_of_range', 'elr_hyp = %r' % (post[3],)))
        if not bad and type(cpsr) is int:
            pc = regs[RNAMES.index('PC')]
            t, j = (cpsr >> 5) & 1, (cpsr >> 24) & 1
            if not j and ((t and pc & 1) or (not t and pc & 3)):
                bad.append(('pc_misaligned', 'pc = %#x in %s state' % (pc, 'Thumb' if t else 'ARM')))
        return bad

    def on_tick(self, b, rec):
        if rec['exc']:
            return
        arm = b.cores[rec['core']].arm
        for cls, detail in self.check_light(b, rec['post'], rec['what'], arm):
            site = opname(arm) if rec['what'] == 'step' else rec['what']
            b.count('probe.range-violation')
            if self.report:
                b.violate(self.oracle, site, cls, '%s after %s at pc=%#x opcode=%#x cpsr=%#x' % (
                    detail, rec['what'], rec['pre_pc'], arm.opcode, rec['pre'][1]))
            b.stop = True
            break

    def on_event(self, b, ev, core, pre, post):
        if ev['kind'] != 'reset':
            return
        for cls, detail in self.check_light(b, post, 'reset', core.arm):
            if self.report:
                b.violate(self.oracle, 'reset', cls, detail)
            b.stop = True
            break


class ModeMonitor:
    """M-mode (C12): CPSR.M is never a reserved / unimplemented mode number."""

    def __init__(self, cfg, report=True):
        self.legal = set(M.MODES[m] for m in ('usr', 'fiq', 'irq', 'svc', 'abt', 'und', 'sys'))
        if cfg.get('have_security_ext', True):
            self.legal.add(0x16)
        if cfg.get('have_virt_ext', False):
            self.legal.add(0x1a)
        self.report = report

    def on_tick(self, b, rec):
        if rec['exc']:
            return
        m = rec['post'][1] & 0x1F
        if m not in self.legal:
            arm = b.cores[rec['core']].arm
            b.count('probe.bad-mode')
            if self.report:
                b.violate('bad_mode', opname(arm) if rec['what'] == 'step' else rec['what'], 'bad_mode_installed',
                          'CPSR.M=%#x after %s at pc=%#x opcode=%#x pre-cpsr=%#x' % (m, rec['what'], rec['pre_pc'], arm.opcode, rec['pre'][1]))
            b.stop = True
