"""Reference model of the Thumb IT state machine (ARM ARM A2.5.2: ITAdvance, InITBlock, LastInITBlock) and of
ConditionPassed (A8.3).  Independent of /repo."""


def it_after_IT(firstcond, mask):
    return (firstcond << 4) | mask


def it_advance(it):
    if it & 7 == 0:
        return 0
    return (it & 0xE0) | ((it << 1) & 0x1F)


def in_it_block(it):
    return it & 0xF != 0


def last_in_it_block(it):
    return it & 0xF == 8


def block_len(mask):
    """number of instructions covered by an IT instruction with this mask (1..4)"""
    for n, bit in ((4, 1), (3, 2), (2, 4), (1, 8)):
        if mask & bit:
            return n
    return 0


def sequence(firstcond, mask):
    """ITSTATE before each slot (index 0 = first slot) and after the last one (0)"""
    it = it_after_IT(firstcond, mask)
    seq = []
    while it & 0xF:
        seq.append(it)
        it = it_advance(it)
    seq.append(0)
    return seq


def cond_passed(cond, nzcv):
    n, z, c, v = (nzcv >> 3) & 1, (nzcv >> 2) & 1, (nzcv >> 1) & 1, nzcv & 1
    base = cond >> 1
    r = [z == 1, c == 1, n == 1, v == 1, c == 1 and z == 0, n == v, n == v and z == 0, True][base]
    if cond & 1 and cond != 0xF:
        r = not r
    return r


def legal_it(firstcond, mask):
    """IT encodings that are not UNPREDICTABLE: firstcond != NV, mask != 0, and for AL no 'else' slots"""
    if firstcond == 0xF or mask == 0:
        return False
    if firstcond == 0xE:
        n = block_len(mask)
        # all slots must be 'then': mask bits above the terminating 1 equal firstcond<0> = 0
        return mask == 1 << (4 - n)
    return True


def legal_pairs():
    return [(f, m) for f in range(15) for m in range(1, 16) if legal_it(f, m)]
