"""Reference model of the ARM register banks (ARM ARM B1.3.2, RBankSelect / RfiqBankSelect / LookUpRName):
34 physical general-purpose registers + PC, 7 SPSRs, ELR_hyp.  Independent of /repo."""

USR, FIQ, IRQ, SVC, MON, ABT, HYP, UND, SYS = 0x10, 0x11, 0x12, 0x13, 0x16, 0x17, 0x1a, 0x1b, 0x1f
BANK = {USR: 'usr', SYS: 'usr', FIQ: 'fiq', IRQ: 'irq', SVC: 'svc', MON: 'mon', ABT: 'abt', HYP: 'hyp', UND: 'und'}
SPSR_OF = {FIQ: 'fiq', IRQ: 'irq', SVC: 'svc', MON: 'mon', ABT: 'abt', HYP: 'hyp', UND: 'und'}


def legal_modes(sec, virt):
    ms = [USR, FIQ, IRQ, SVC, ABT, UND, SYS]
    if sec:
        ms.append(MON)
    if virt:
        ms.append(HYP)
    return ms


def phys(n, mode):
    """name of the physical register that Rn names in 'mode'"""
    assert 0 <= n <= 14
    if n < 8:
        return 'R%dusr' % n
    if n < 13:
        return 'R%d%s' % (n, 'fiq' if mode == FIQ else 'usr')
    b = BANK[mode]
    if n == 13:
        return 'SP' + b
    return 'LR' + ('usr' if b == 'hyp' else b)      # Hyp mode uses the User-mode LR; its return address lives in ELR_hyp


class Banks:
    def __init__(self, R, spsr, elr_hyp):
        self.R = dict(R)            # name -> value (34 entries incl. PC)
        self.spsr = dict(spsr)      # 'fiq','irq',... -> value
        self.elr_hyp = elr_hyp

    def get(self, n, mode):
        return self.R[phys(n, mode)]

    def set(self, n, mode, v):
        self.R[phys(n, mode)] = v
