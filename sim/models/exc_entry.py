"""Sequential reference model of ARMv7 exception entry (ARM ARM B1.8.x / B1.9.x pseudocode:
TakeReset, TakeUndefInstrException, TakeSVCException, TakeSMCException, TakeDataAbortException,
TakePhysicalIRQException, TakePhysicalFIQException, TakeHypTrapException, EnterMonitorMode,
EnterHypMode, ExcVectorBase).  Independent of /repo: plain integers in, plain integers out.

The order of statements is the pseudocode's (e.g. SCR.NS is cleared before the A/F mask
condition that reads it)."""

M32 = 0xFFFFFFFF
USR, FIQ, IRQ, SVC, MON, ABT, HYP, UND, SYS = 0x10, 0x11, 0x12, 0x13, 0x16, 0x17, 0x1a, 0x1b, 0x1f

KINDS = ('reset', 'und', 'svc', 'smc', 'dabt', 'irq', 'fiq', 'hyptrap')
VECT = {'reset': 0, 'und': 4, 'svc': 8, 'smc': 8, 'pabt': 12, 'dabt': 16, 'hyptrap': 20, 'irq': 24, 'fiq': 28}


def cpsr_it(cpsr):
    return ((cpsr >> 8) & 0xFC) | ((cpsr >> 25) & 3)


def cpsr_with_it(cpsr, it):
    return (cpsr & ~0x0600FC00) | ((it & 3) << 25) | ((it >> 2) << 10)


def it_advance(it):
    if it & 7 == 0:
        return 0
    return (it & 0xE0) | ((it << 1) & 0x1F)


def pre_state(arm, cfg, align=False, stage2=False):
    """collect the inputs of the model from a real instance (values only)"""
    r = arm.registers
    sct = r.sctlr.value
    hs = r.hsctlr.value
    return {
        'sec': bool(cfg.get('have_security_ext', True)), 'virt': bool(cfg.get('have_virt_ext', False)),
        'cpsr': r.cpsr.value, 'pc': r.pc_store_value(), 'scr': r.scr.value, 'hcr': r.hcr.value,
        'V': (sct >> 13) & 1, 'VE': (sct >> 24) & 1, 'TE': (sct >> 30) & 1, 'EE': (sct >> 25) & 1,
        'HTE': (hs >> 30) & 1, 'HEE': (hs >> 25) & 1,
        'vbar': r.vbar.value, 'mvbar': r.mvbar, 'hvbar': r.hvbar, 'align': bool(align), 'stage2': bool(stage2),
        'irq_vec': cfg.get('impdef_irq_vector', 24), 'fiq_vec': cfg.get('impdef_fiq_vector', 28),
        'vbar_reset': int(cfg.get('reset_values', {}).get('VBAR', '0'), 0),
        'impdef_reset': cfg.get('impdef_reset_vector', 0) if cfg.get('has_imp_def_reset_vector') else None,
    }


def entry(kind, s):
    """returns dict(mode, cpsr, spsr, lr, elr, pc, ns): lr/elr/spsr are None when not written/UNKNOWN"""
    sec, virt = s['sec'], s['virt']
    cpsr = s['cpsr']
    T = (cpsr >> 5) & 1
    m = cpsr & 0x1F
    pcs = s['pc']
    rd = (pcs + (4 if T else 8)) & M32          # what an instruction reading the PC sees
    scr = s['scr'] if sec else 0
    ns, irq, fiq, ea, fw, aw = scr & 1, (scr >> 1) & 1, (scr >> 2) & 1, (scr >> 3) & 1, (scr >> 4) & 1, (scr >> 5) & 1
    hcr = s['hcr']
    tge, imo, fmo = (hcr >> 27) & 1, (hcr >> 4) & 1, (hcr >> 3) & 1
    is_secure = (not sec) or (not ns) or m == MON
    A, I, F = (cpsr >> 8) & 1, (cpsr >> 7) & 1, (cpsr >> 6) & 1

    spsr = cpsr
    if kind in ('svc', 'smc'):
        spsr = cpsr_with_it(cpsr, it_advance(cpsr_it(cpsr)))   # ITAdvance() before the CPSR is saved

    def finish(mode, a, i, f, t, e, lr, elr, pc, ns_out, spsr_out):
        c = spsr_out if spsr_out is not None else cpsr
        c = (c & ~0x1F) | mode
        c = (c & ~(1 << 8)) | a << 8
        c = (c & ~(1 << 7)) | i << 7
        c = (c & ~(1 << 6)) | f << 6
        c = cpsr_with_it(c, 0)
        c &= ~(1 << 24)
        c = (c & ~(1 << 5)) | t << 5
        c = (c & ~(1 << 9)) | e << 9
        return {'mode': mode, 'cpsr': c, 'spsr': spsr_out, 'lr': lr, 'elr': elr, 'pc': pc & M32, 'ns': ns_out}

    def exc_vector_base():
        if s['V']:
            return 0xFFFF0000
        return s['vbar'] if sec else 0

    def mon(lr, off):
        ns_out = 0 if m == MON else ns
        return finish(MON, 1, 1, 1, s['TE'], s['EE'], lr, None, s['mvbar'] + off, ns_out, spsr)

    def hyp(ret, off):
        a = A if ea else 1
        f = F if fiq else 1
        i = I if irq else 1
        return finish(HYP, a, i, f, s['HTE'], s['HEE'], None, ret, s['hvbar'] + off, ns, spsr)

    def normal(mode, lr, off, set_a=False, set_f=False, vec=None):
        ns_out = 0 if m == MON else ns
        a, f = A, F
        if set_f and ((not sec) or virt or (not ns_out) or fw):
            f = 1
        if set_a and ((not sec) or virt or (not ns_out) or aw):
            a = 1
        pc = vec if vec is not None else exc_vector_base() + off
        return finish(mode, a, 1, f, s['TE'], s['EE'], lr, None, pc, ns_out, spsr)

    take_to_hyp = virt and sec and ns and m == HYP
    route_tge = virt and sec and (not is_secure) and tge and m == USR

    if kind == 'reset':
        base = 0xFFFF0000 if s['V'] else (s['vbar_reset'] if sec else 0)
        if s.get('impdef_reset') is not None:
            base = s['impdef_reset']             # IMPLEMENTATION DEFINED reset vector (configuration item)
        d = finish(SVC, 1, 1, 1, s['TE'], s['EE'], None, None, base & ~1, 0 if sec else ns, None)
        return d
    if kind == 'und':
        lr = (rd - 2 if T else rd - 4) & M32
        ret = (lr - (2 if T else 4)) & M32
        if take_to_hyp:
            return hyp(ret, 4)
        if route_tge:
            return hyp(ret, 20)
        return normal(UND, lr, 4)
    if kind == 'svc':
        lr = (rd - 2 if T else rd - 4) & M32
        if take_to_hyp:
            return hyp(lr, 8)
        if route_tge:
            return hyp(lr, 20)
        return normal(SVC, lr, 8)
    if kind == 'smc':
        lr = (rd if T else rd - 4) & M32
        return mon(lr, 8)
    if kind == 'dabt':
        lr = (rd + 4 if T else rd) & M32
        ret = (lr - 8) & M32
        # external aborts / debug exceptions are not modelled (armulator mocks them as absent)
        if take_to_hyp:
            return hyp(ret, 16)
        if virt and sec and (not is_secure) and (s.get('stage2') or (m == USR and tge and s['align'])):
            return hyp(ret, 20)          # second-stage aborts and TGE-routed alignment faults: Hyp Trap vector
        return normal(ABT, lr, 16, set_a=True)
    if kind == 'irq':
        lr = (rd if T else rd - 4) & M32
        if sec and irq:
            return mon(lr, 24)
        if (virt and sec and (not irq) and imo and (not is_secure)) or m == HYP:
            return hyp((lr - 4) & M32, 24)
        return normal(IRQ, lr, 24, set_a=True, vec=(s['irq_vec'] if s['VE'] else None))
    if kind == 'fiq':
        lr = (rd if T else rd - 4) & M32
        if sec and fiq:
            return mon(lr, 28)
        if (virt and sec and (not fiq) and fmo and (not is_secure)) or m == HYP:
            return hyp((lr - 4) & M32, 28)
        return normal(FIQ, lr, 28, set_a=True, set_f=True, vec=(s['fiq_vec'] if s['VE'] else None))
    if kind == 'hyptrap':
        ret = (rd - 4 if T else rd - 8) & M32
        return hyp(ret, 20)
    raise ValueError(kind)


SPSR_ATTR = {FIQ: 'fiq', IRQ: 'irq', SVC: 'svc', MON: 'mon', ABT: 'abt', HYP: 'hyp', UND: 'und'}
LR_NAME = {FIQ: 'LRfiq', IRQ: 'LRirq', SVC: 'LRsvc', MON: 'LRmon', ABT: 'LRabt', UND: 'LRund'}


def compare(exp, pre_light, post_light, kind):
    """field-by-field comparison of a real entry against the model; returns list of (class, detail).
    pre_light/post_light are machine.light() tuples; everything the entry must not touch (every other
    bank, every other SPSR, ELR_hyp unless Hyp) must be unchanged."""
    from ..machine import RNAMES, SPSR_MODES
    out = []
    preR = dict(zip(RNAMES, pre_light[0]))
    postR = dict(zip(RNAMES, post_light[0]))
    mode = exp['mode']
    if post_light[1] & 0x1F != mode:
        out.append(('mode', 'mode %#x expected %#x' % (post_light[1] & 0x1F, mode)))
        return out
    if post_light[1] != exp['cpsr']:
        x = post_light[1] ^ exp['cpsr']
        cls = 'cpsr'
        if x & 0x0600FC00:
            cls = 'cpsr.it'
        elif x & (1 << 5):
            cls = 'cpsr.t'
        elif x & (1 << 9):
            cls = 'cpsr.e'
        elif x & (1 << 24):
            cls = 'cpsr.j'
        elif x & 0x1C0:
            cls = 'cpsr.aif'
        out.append((cls, 'cpsr %#010x expected %#010x' % (post_light[1], exp['cpsr'])))
    if postR['PC'] != exp['pc']:
        out.append(('pc', 'pc %#x expected %#x' % (postR['PC'], exp['pc'])))
    pre_sp = dict(zip(SPSR_MODES, pre_light[2]))
    post_sp = dict(zip(SPSR_MODES, post_light[2]))
    sp_name = SPSR_ATTR[mode]
    for nme in SPSR_MODES:
        if nme == sp_name and exp['spsr'] is not None:
            if post_sp[nme] != exp['spsr']:
                out.append(('spsr', 'spsr_%s %#010x expected %#010x' % (nme, post_sp[nme], exp['spsr'])))
        elif nme == sp_name and exp['spsr'] is None:
            pass
        elif post_sp[nme] != pre_sp[nme] and kind != 'reset':      # registers are UNKNOWN after reset
            out.append(('other_spsr', 'spsr_%s changed %#x -> %#x' % (nme, pre_sp[nme], post_sp[nme])))
    lrname = LR_NAME.get(mode)
    for nme in RNAMES:
        if nme == 'PC':
            continue
        if nme == lrname and exp['lr'] is not None:
            if postR[nme] != exp['lr']:
                out.append(('lr', '%s %#x expected %#x' % (nme, postR[nme], exp['lr'])))
        elif nme == lrname and kind == 'reset':
            pass
        elif postR[nme] != preR[nme] and kind != 'reset':
            out.append(('other_reg', '%s changed %#x -> %#x' % (nme, preR[nme], postR[nme])))
    if exp['elr'] is not None:
        if post_light[3] != exp['elr']:
            out.append(('elr', 'elr_hyp %#x expected %#x' % (post_light[3], exp['elr'])))
    elif post_light[3] != pre_light[3] and kind != 'reset':
        out.append(('other_reg', 'elr_hyp changed'))
    if (post_light[6] & 1) != exp['ns']:
        out.append(('scr.ns', 'SCR.NS %d expected %d' % (post_light[6] & 1, exp['ns'])))
    if (post_light[6] & ~1) != (pre_light[6] & ~1):
        out.append(('scr', 'SCR changed beyond NS'))
    return out
