"""Reference model of PMSAv7 address translation and permission checking (ARM ARM B5: TranslateAddressP region match,
background region rule, CheckPermission AP table, EncodePMSAFSR).  Independent of /repo: plain integers.

regions: list of (drsr, drbar, dracr) raw register values, index = region number (higher number = higher priority).
AP encodings 0b100 and 0b111 are UNPREDICTABLE in PMSA: decide() returns 'unpredictable' for them."""

FS_ALIGNMENT = 0b00001
FS_BACKGROUND = 0b00000
FS_PERMISSION = 0b01101


def region_hit(drsr, drbar, va):
    if not drsr & 1:
        return False
    ls = ((drsr >> 1) & 0x1F) + 1
    if ls < 2:
        return None            # UNPREDICTABLE size encoding
    if ls == 32 or (va >> ls) == (drbar >> ls):
        if ls >= 8:
            sub = (va >> (ls - 3)) & 7
            if (drsr >> (8 + sub)) & 1:
                return False   # subregion disabled
        return True
    return False


def match(regions, va, dregion=None):
    """index of the highest-numbered enabled region covering va, or None"""
    hit = None
    n = len(regions) if dregion is None else min(dregion, len(regions))
    for i in range(n):
        h = region_hit(regions[i][0], regions[i][1], va)
        if h:
            hit = i
    return hit


def ap_abort(ap, priv, write):
    if ap == 0:
        return True
    if ap == 1:
        return not priv
    if ap == 2:
        return (not priv) and write
    if ap == 3:
        return False
    if ap == 5:
        return (not priv) or write
    if ap == 6:
        return write
    return None     # 4, 7: UNPREDICTABLE


def decide(regions, m, br, va, priv, write, dregion=None):
    """-> ('ok'|'perm'|'background'|'unpredictable', region index or None)"""
    if not m:
        return 'ok', None
    i = match(regions, va, dregion)
    if i is None:
        if not br or not priv:
            return 'background', None
        return 'ok', None
    ap = (regions[i][2] >> 8) & 7
    a = ap_abort(ap, priv, write)
    if a is None:
        return 'unpredictable', i
    return ('perm' if a else 'ok'), i


def fault_status(kind):
    return {'perm': FS_PERMISSION, 'background': FS_BACKGROUND, 'align': FS_ALIGNMENT}[kind]


def dfsr_fs(dfsr):
    return (dfsr & 0xF) | ((dfsr >> 10) & 1) << 4


def regions_from_sys(sys):
    return list(zip(sys.get('drsrs', []), sys.get('drbars', []), sys.get('dracrs', [])))


def regions_from_arm(arm):
    r = arm.registers
    return [(a.value, b, c.value) for a, b, c in zip(r.drsrs, r.drbars, r.dracrs)]
