"""Reference model of CPSRWriteByInstr / SPSRWriteByInstr / BadMode (ARM ARM B1.3.1, B1.3.3) and of the MRS read masks.
Independent of /repo: plain integers."""

USR, FIQ, IRQ, SVC, MON, ABT, HYP, UND, SYS = 0x10, 0x11, 0x12, 0x13, 0x16, 0x17, 0x1a, 0x1b, 0x1f


def bad_mode(m, sec, virt):
    if m in (USR, FIQ, IRQ, SVC, ABT, UND, SYS):
        return False
    if m == MON:
        return not sec
    if m == HYP:
        return not virt
    return True


def cpsr_write_by_instr(cpsr, value, mask, is_excp_return, sec, virt, scr, nmfi, nsacr_rfr):
    """-> (new cpsr, unpredictable_mode_change).  When the mode change is UNPREDICTABLE the returned value has the
    old mode; every other field is as the preceding statements left it."""
    m = cpsr & 0x1F
    priv = m != USR
    ns = scr & 1 if sec else 0
    fw, aw = (scr >> 4) & 1, (scr >> 5) & 1
    secure = (not sec) or (not ns) or m == MON

    def cp(hi, lo):
        nonlocal cpsr
        msk = ((1 << (hi - lo + 1)) - 1) << lo
        cpsr = (cpsr & ~msk) | (value & msk)

    unpred = False
    if mask & 8:
        cp(31, 27)
        if is_excp_return:
            cp(26, 24)
    if mask & 4:
        cp(19, 16)
    if mask & 2:
        if is_excp_return:
            cp(15, 10)
        cp(9, 9)
        if priv and (secure or aw or virt):
            cp(8, 8)
    if mask & 1:
        if priv:
            cp(7, 7)
        if priv and (not nmfi or not (value >> 6) & 1) and (secure or fw or virt):
            cp(6, 6)
        if is_excp_return:
            cp(5, 5)
        if priv:
            vm = value & 0x1F
            if bad_mode(vm, sec, virt):
                unpred = True
            elif not secure and vm == MON:
                unpred = True
            elif not secure and vm == FIQ and nsacr_rfr:
                unpred = True
            elif not ns and vm == HYP and sec:
                unpred = True
            elif not secure and m != HYP and vm == HYP:
                unpred = True
            elif m == HYP and vm != HYP and not is_excp_return:
                unpred = True
            else:
                cp(4, 0)
    return cpsr, unpred


def spsr_write_by_instr(spsr, value, mask, sec, virt):
    """-> (new spsr, unpredictable)"""
    unpred = False

    def cp(hi, lo):
        nonlocal spsr
        msk = ((1 << (hi - lo + 1)) - 1) << lo
        spsr = (spsr & ~msk) | (value & msk)

    if mask & 8:
        cp(31, 24)
    if mask & 4:
        cp(19, 16)
    if mask & 2:
        cp(15, 8)
    if mask & 1:
        cp(7, 5)
        if bad_mode(value & 0x1F, sec, virt):
            unpred = True
        else:
            cp(4, 0)
    return spsr, unpred


MRS_CPSR_MASK = 0xF8FF03DF          # execution state bits other than E read as zero
MRS_USER_UNKNOWN = 0x000003DF & ~0x200 | 0x1F    # in User mode M, A, I, F (and T) are UNKNOWN


def arm_expand_imm(imm12):
    rot = 2 * (imm12 >> 8)
    v = imm12 & 0xFF
    return ((v >> rot) | (v << (32 - rot))) & 0xFFFFFFFF if rot else v
