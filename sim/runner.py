"""Seeded batch runner: derives every run from (VERIF_SEED, property, tier, index), fans runs out to
forked workers, merges results in index order, matches violations against known findings,
minimises, writes replay files, confirms them in a fresh interpreter and writes the evidence."""
import collections
import concurrent.futures as cf
import faulthandler
import hashlib
import json
import multiprocessing
import os
import random
import subprocess
import sys
import time
import traceback

from . import env

VERIF = os.path.dirname(os.path.dirname(os.path.abspath(__file__)))
KNOWN_FILE = os.path.join(VERIF, 'known_findings.json')

COMPONENTS = {
    'real': ['ArmV6 (fetch/decode/execute, exception dispatch, MPU/MMU translation)', 'Registers and all register classes',
             'all opcode classes and decoders', 'MemoryControllerHub', 'RAM', 'configurations module',
             'exception handlers and main programs (machine code run by the real emulator)'],
    'stub': ['interrupt controller (lines + acknowledge MMIO page)', 'reset line', 'supervisor that rewrites MPU/SCR/SCTLR between ticks',
             'recording RAM (subclass of the real RAM)', 'WFI/WFE sleep and wake-up', "print('unpredictable') replaced by a counter",
             'reference models (independent code)'],
}


def derive_seed(seed, prop, tier, index):
    h = hashlib.blake2b(('%d|%s|%s|%d' % (seed, prop, tier, index)).encode(), digest_size=8).digest()
    return int.from_bytes(h, 'big')


def sig_of(prop, v):
    return (prop, v['oracle'], v['site'], v['cls'])


def load_known():
    try:
        with open(KNOWN_FILE) as f:
            return json.load(f)
    except FileNotFoundError:
        return []


def known_match(known, sig):
    for e in known:
        if e.get('status') != 'known':
            continue
        s = e['signature']
        if (e['property'], s['oracle'], s['site'], s['class']) == sig:
            return e
    return None


# ------------------------------------------------------------------ worker side

_SCEN = {}


def _scenario(modname):
    if modname not in _SCEN:
        _SCEN[modname] = __import__('scenarios.' + modname, fromlist=['x'])
    return _SCEN[modname]


def _merge_counter(dst, src):
    for k, v in src.items():
        dst[k] = dst.get(k, 0) + v


def run_items(modname, prop, tier, seed, items, timeout):
    """executed in a worker: returns one aggregated record for a contiguous slice of the plan"""
    faulthandler.dump_traceback_later(timeout, exit=True)
    try:
        scen = _scenario(modname)
        agg = {'n': 0, 'ticks': 0, 'stats': {}, 'cover': set(), 'viol': [], 'digests': [], 'samples': [],
               'harness': [], 'nviol': 0, 'first_index': items[0][0] if items else 0}
        kept_sigs = {}
        for index, item in items:
            rng = random.Random(derive_seed(seed, prop, tier, index))
            try:
                case = scen.gen(item, rng, tier)
                res = scen.run(case)
            except Exception:
                agg['harness'].append({'index': index, 'item': item, 'tb': traceback.format_exc()})
                if len(agg['harness']) > 3:
                    break
                continue
            agg['n'] += 1
            agg['ticks'] += res.get('ticks', 0)
            _merge_counter(agg['stats'], res.get('stats', {}))
            agg['cover'].update(res.get('cover', ()))
            agg['digests'].append(res.get('digest', ''))
            if res.get('violations'):
                agg['nviol'] += 1
                # records are kept per SIGNATURE (the first three runs showing each): a signature that shows in nearly every run - a known finding -
                # must not use up the room and hide a different violation later in the same slice
                fresh = [v for v in res['violations'] if kept_sigs.get((v.get('oracle'), v.get('site'), v.get('cls')), 0) < 3]
                if fresh:
                    for v in fresh:
                        kept_sigs[(v.get('oracle'), v.get('site'), v.get('cls'))] = kept_sigs.get((v.get('oracle'), v.get('site'), v.get('cls')), 0) + 1
                    agg['viol'].append({'index': index, 'case': case, 'violations': res['violations']})
            if len(agg['samples']) < 2 and (res.get('interesting') or index % 997 == 0):
                agg['samples'].append(scen.sample(case, res))
        return agg
    finally:
        faulthandler.cancel_dump_traceback_later()


# ------------------------------------------------------------------ minimiser

def minimise(scen, prop, case, sig, budget=300):
    """greedy delta debugging over scenario-provided candidates; keeps the same signature"""
    runs = 0
    t_end = time.time() + 150
    from . import board as _board
    old_to = _board.TICK_TIMEOUT
    if sig[3] == 'Hang':
        _board.TICK_TIMEOUT = 3.0

    def still(c):
        nonlocal runs
        runs += 1
        if time.time() > t_end:
            return False
        try:
            res = scen.run(c)
        except Exception:
            return False
        return any(sig_of(prop, v) == sig for v in res.get('violations', ()))

    shrink = getattr(scen, 'shrink', None)
    if shrink is None:
        return case, runs
    try:
        progress = True
        while progress and runs < budget:
            progress = False
            for cand in shrink(case):
                if runs >= budget:
                    break
                if still(cand):
                    case = cand
                    progress = True
                    break
    finally:
        _board.TICK_TIMEOUT = old_to
    return case, runs


# ------------------------------------------------------------------ replay

def replay_file(path, quiet=False):
    """PRNG-free re-execution of a replay file; returns (exit code, signatures found)"""
    with open(path) as f:
        rp = json.load(f)
    scen = _scenario(rp['module'])
    res = scen.run(rp['case'])
    want = (rp['property'], rp['signature']['oracle'], rp['signature']['site'], rp['signature']['class'])
    found = [sig_of(rp['property'], v) for v in res.get('violations', ())]
    hit = want in found
    if not quiet:
        for v in res.get('violations', ()):
            env.out('  violation: oracle=%s site=%s class=%s %s' % (v['oracle'], v['site'], v['cls'], v.get('detail', '')))
    env.out('REPLAY-RESULT ' + json.dumps({'reproduced': hit, 'found': found}))
    known = known_match(load_known(), want)
    if hit and known is not None:
        env.out('KNOWN-FINDING: property=%s %s' % (rp['property'], known['what']))
        return 0
    if hit:
        env.out('VIOLATION property=%s replay=%s' % (rp['property'], path))
        return 1
    return 0


def confirm_in_fresh_interpreter(path):
    cmd = [sys.executable, '-B', os.path.join(VERIF, 'run_check.py'), '--replay', path]
    e = dict(os.environ)
    e['PYTHONHASHSEED'] = '0'
    try:
        p = subprocess.run(cmd, cwd=VERIF, env=e, capture_output=True, text=True, timeout=300)
    except subprocess.TimeoutExpired:
        return False
    for line in p.stdout.splitlines():
        if line.startswith('REPLAY-RESULT '):
            return json.loads(line[len('REPLAY-RESULT '):]).get('reproduced', False)
    return False


# ------------------------------------------------------------------ parent side

def run_check(modname, tier, seed, workers=None, budget_s=None, only_index=None):
    t0 = time.time()
    scen = _scenario(modname)
    prop = scen.PROPERTY
    plan = scen.plan(tier, seed)          # list of items; index = position
    items = list(enumerate(plan))
    if os.environ.get('VERIF_MAX_RUNS'):
        # self-tests only: a deterministic sub-sample of the plan (every k-th item)
        k = max(1, len(items) // int(os.environ['VERIF_MAX_RUNS']))
        while k > 1 and (k % 2 == 0 or k % 3 == 0 or k % 5 == 0):
            k += 1          # avoid aliasing with round-robin plans
        items = items[::k][:int(os.environ['VERIF_MAX_RUNS'])]
    if only_index is not None:
        items = [items[only_index]]
    workers = workers or int(os.environ.get('VERIF_WORKERS', '0')) or min(16, os.cpu_count() or 1)
    budget_s = budget_s or float(os.environ.get('VERIF_BUDGET_S', '0')) or scen.BUDGET_S[tier]
    nchunks = max(1, min(len(items), workers * 8))
    size = (len(items) + nchunks - 1) // nchunks
    chunks = [items[i:i + size] for i in range(0, len(items), size)]
    # chunks are executed in a fixed pseudo-random order (the first one first): a run cut short by its time budget - a loaded machine - then still holds
    # every part of the plan in proportion instead of losing whatever the plan lists last
    order = [0] + sorted(range(1, len(chunks)), key=lambda i: (i * 2654435761) % 4294967296)
    chunks = [chunks[i] for i in order]
    timeout = int(budget_s * 4 + 120)

    total = {'n': 0, 'ticks': 0, 'stats': {}, 'cover': set(), 'viol': [], 'samples': [], 'harness': [], 'nviol': 0}
    dig = hashlib.blake2b(digest_size=8)
    all_digests = []           # (first plan index of the slice, [digest per run]): hashed in plan order, whatever order the slices were executed in
    truncated = False
    broken = None
    if workers == 1:
        results = (run_items(modname, prop, tier, seed, ch, timeout) for ch in chunks)
        futs = None
    else:
        ctx = multiprocessing.get_context('fork')
        ex = cf.ProcessPoolExecutor(max_workers=workers, mp_context=ctx)
        futs = [ex.submit(run_items, modname, prop, tier, seed, ch, timeout) for ch in chunks]

        def _iter():
            for f in futs:
                if f.cancelled():
                    continue
                yield f.result()
        results = _iter()
    try:
        for agg in results:
            total['n'] += agg['n']
            total['ticks'] += agg['ticks']
            total['nviol'] += agg['nviol']
            _merge_counter(total['stats'], agg['stats'])
            total['cover'].update(agg['cover'])
            total['viol'].extend(agg['viol'])
            total['harness'].extend(agg['harness'])
            all_digests.append((agg.get('first_index', 0), agg['digests']))
            if len(total['samples']) < 3:
                total['samples'].extend(agg['samples'][:3 - len(total['samples'])])
            if time.time() - t0 > budget_s and futs is not None and not truncated:
                truncated = True
                for f in futs:
                    f.cancel()
    except cf.process.BrokenProcessPool as e:
        broken = 'worker died or timed out: %r' % (e,)
    except Exception:
        broken = traceback.format_exc()
    finally:
        if futs is not None:
            ex.shutdown(wait=True, cancel_futures=True)

    for _, ds in sorted(all_digests, key=lambda p_: p_[0]):
        for d in ds:
            dig.update(d.encode())

    # ---- violations
    known = load_known()
    by_sig = collections.OrderedDict()
    for rec in sorted(total['viol'], key=lambda r: r['index']):
        for v in rec['violations']:
            by_sig.setdefault(sig_of(prop, v), (rec, v))
    known_seen, new_viol = [], []
    for sig, (rec, v) in by_sig.items():
        e = known_match(known, sig)
        if e is not None:
            known_seen.append((sig, e))
        else:
            new_viol.append((sig, rec, v))
    for sig, e in known_seen:
        env.out('KNOWN-FINDING: property=%s %s' % (prop, e['what']))

    exit_code = 0
    replays = []
    harness_fail = bool(total['harness']) or broken is not None
    for sig, rec, v in new_viol[:5]:
        case, nruns = minimise(scen, prop, rec['case'], sig)
        os.makedirs(os.path.join(VERIF, 'replays'), exist_ok=True)
        name = '%s-%d-%d-%s.json' % (prop, seed, rec['index'], hashlib.blake2b(repr(sig).encode(), digest_size=3).hexdigest())
        path = os.path.join(VERIF, 'replays', name)
        with open(path, 'w') as f:
            json.dump({'format': 1, 'property': prop, 'module': modname, 'seed': seed, 'tier': tier, 'run_index': rec['index'],
                       'signature': {'oracle': sig[1], 'site': sig[2], 'class': sig[3]}, 'detail': v.get('detail', ''),
                       'minimiser_runs': nruns, 'case': case}, f, indent=1, sort_keys=True)
        if confirm_in_fresh_interpreter(path):
            env.out('  oracle=%s site=%s class=%s %s' % (sig[1], sig[2], sig[3], v.get('detail', '')))
            env.out('VIOLATION property=%s replay=%s' % (prop, os.path.relpath(path, VERIF)))
            replays.append(os.path.relpath(path, VERIF))
            exit_code = 1
        else:
            env.err('HARNESS-ERROR: replay %s did not reproduce %r in a fresh interpreter' % (path, sig))
            harness_fail = True
    for h in total['harness'][:3]:
        env.err('HARNESS-ERROR in run %s:\n%s' % (h['index'], h['tb']))
    if broken:
        env.err('HARNESS-ERROR: ' + broken)
    if harness_fail and exit_code == 0:
        exit_code = 2

    wall = time.time() - t0
    cover = total['cover']
    nontrivial = sorted(k for k in cover if not str(k).startswith('~'))
    stats = total['stats']
    ev = {
        'property_id': prop, 'tier': tier, 'seed': seed, 'level': scen.LEVEL,
        'coverage': {
            'evaluations': total['n'], 'distinct_nontrivial': len(nontrivial), 'rule': scen.RULE,
            'samples': total['samples'][:3] or [{'note': 'no sample collected'}],
            'exhaustive': bool(getattr(scen, 'EXHAUSTIVE', {}).get(tier, False)) and not truncated,
            'ticks_simulated': total['ticks'],
            'runs_per_hour': int(total['n'] / wall * 3600) if wall > 0 else 0,
            'ticks_per_hour': int(total['ticks'] / wall * 3600) if wall > 0 else 0,
            'planned_runs': len(items), 'truncated_by_budget': truncated, 'workers': workers,
            'faults_fired': {k[6:]: v for k, v in sorted(stats.items()) if k.startswith('fault.')},
            'exceptions_entered': {k[4:]: v for k, v in sorted(stats.items()) if k.startswith('exc.')},
            'probes': {k[6:]: v for k, v in sorted(stats.items()) if k.startswith('probe.')},
            'not_implemented_sites': {k[4:]: v for k, v in sorted(stats.items()) if k.startswith('nie.')},
            'other_counters': {k: v for k, v in sorted(stats.items()) if k.split('.')[0] not in ('fault', 'exc', 'probe', 'nie')},
            'unpredictable_prints': stats.get('prints', 0),
            'log_digest': dig.hexdigest(),
            'components': COMPONENTS,
            'known_findings_seen': [e['what'] for _, e in known_seen],
            'runs_with_violation': total['nviol'],
            'replays': replays,
            'cover_examples': [str(k) for k in nontrivial[:12]],
        },
        'assumptions': list(getattr(scen, 'ASSUMPTIONS', [])),
        'wall_s': round(wall, 2),
        'violations': len(new_viol),
    }
    evdir = os.environ.get('VERIF_EVIDENCE_DIR') or os.path.join(VERIF, 'evidence')
    os.makedirs(evdir, exist_ok=True)
    with open(os.path.join(evdir, prop + '.json'), 'w') as f:
        json.dump(ev, f, indent=1, sort_keys=True, default=str)
    if os.environ.get('VERIF_DUMP_COVER'):
        # developer aid: the complete cover set (the evidence keeps only its size and a few examples)
        with open(os.environ['VERIF_DUMP_COVER'], 'w') as f:
            f.write('\n'.join(sorted(str(k) for k in cover)) + '\n')
    env.out('%s tier=%s seed=%d runs=%d ticks=%d distinct=%d known=%d violations=%d harness_errors=%d wall=%.1fs digest=%s%s' % (
        prop, tier, seed, total['n'], total['ticks'], len(nontrivial), len(known_seen), len(new_viol),
        len(total['harness']) + (1 if broken else 0), wall, dig.hexdigest(), ' TRUNCATED' if truncated else ''))
    return exit_code
