"""Pristine-process execution for C20's solo baselines.

A 'zygote' child is forked the first time solo() is called in a process — which must be before that process has
constructed any ArmV6 — and from then on forks one grandchild per request.  Each grandchild therefore starts from
an interpreter in which armulator is imported but no instance has ever been created (the module-level
configuration singleton is still empty), runs one function and returns its pickled result."""
import faulthandler
import os
import pickle
import signal
import struct

_z = {'pid': None, 'owner': None, 'req_w': None, 'res_r': None}
constructed = [0]     # machine.new_arm() bumps this; used to assert pristineness


def _read_exact(fd, n):
    buf = b''
    while len(buf) < n:
        ch = os.read(fd, n - len(buf))
        if not ch:
            raise EOFError
        buf += ch
    return buf


def _send(fd, obj):
    data = pickle.dumps(obj, protocol=4)
    os.write(fd, struct.pack('<Q', len(data)))
    off = 0
    while off < len(data):
        off += os.write(fd, data[off:off + 65536])


def _recv(fd):
    n = struct.unpack('<Q', _read_exact(fd, 8))[0]
    return pickle.loads(_read_exact(fd, n))


def _zygote_loop(req_r, res_w):
    # NB: never call faulthandler.cancel_dump_traceback_later() here: the watchdog thread does not exist in a forked
    # child and cancelling would wait for it forever
    signal.signal(signal.SIGALRM, signal.SIG_DFL)
    while True:
        try:
            fn, arg = _recv(req_r)
        except EOFError:
            os._exit(0)
        pid = os.fork()
        if pid == 0:
            code = 0
            try:
                signal.alarm(120)
                out = ('ok', fn(arg))
            except BaseException as e:   # noqa
                import traceback
                out = ('err', traceback.format_exc())
            try:
                from . import machine as _m
                _m._cleanup()
            except BaseException:
                pass
            try:
                _send(res_w, out)
            except BaseException:
                code = 1
            os._exit(code)
        _, status = os.waitpid(pid, 0)
        if status != 0:
            _send(res_w, ('err', 'solo child died with status %r' % (status,)))


def _ensure():
    me = os.getpid()
    if _z['pid'] is not None and _z['owner'] == me:
        return
    if constructed[0]:
        raise RuntimeError('zygote must be created before this process constructs any ArmV6')
    req_r, req_w = os.pipe()
    res_r, res_w = os.pipe()
    pid = os.fork()
    if pid == 0:
        os.close(req_w)
        os.close(res_r)
        try:
            _zygote_loop(req_r, res_w)
        finally:
            os._exit(0)
    os.close(req_r)
    os.close(res_w)
    _z.update(pid=pid, owner=me, req_w=req_w, res_r=res_r)


def solo(fn, arg):
    """run fn(arg) in a pristine grandchild; fn must be a module-level function"""
    _ensure()
    _send(_z['req_w'], (fn, arg))
    kind, val = _recv(_z['res_r'])
    if kind == 'err':
        raise RuntimeError('solo run failed:\n' + val)
    return val
