"""Hand-written encoders for the simulator's instruction vocabulary (ARM A1 and Thumb T1/T2 forms).
ARM encoders return a 32-bit int; Thumb encoders return a 16-bit int or, for 32-bit encodings, the
32-bit int hw1:hw2 (always > 0xFFFF because hw1 >= 0xE800)."""
import struct

AL = 0xE
EQ, NE, CS, CC, MI, PL, VS, VC, HI, LS, GE, LT, GT, LE = range(14)
DP = {'and': 0, 'eor': 1, 'sub': 2, 'rsb': 3, 'add': 4, 'adc': 5, 'sbc': 6, 'rsc': 7, 'tst': 8, 'teq': 9, 'cmp': 10,
      'cmn': 11, 'orr': 12, 'mov': 13, 'bic': 14, 'mvn': 15}


def emit(words, thumb):
    b = bytearray()
    for w in words:
        if not thumb:
            b += struct.pack('<I', w)
        elif w > 0xFFFF:
            b += struct.pack('<HH', w >> 16, w & 0xFFFF)
        else:
            b += struct.pack('<H', w)
    return bytes(b)


def size_of(w, thumb):
    return 4 if (not thumb or w > 0xFFFF) else 2


def reglist(*regs):
    m = 0
    for r in regs:
        m |= 1 << r
    return m


class A:
    """ARM (A1) encodings"""

    @staticmethod
    def dp_imm(op, rd, rn, imm8, s=0, rot=0, cond=AL):
        return cond << 28 | 1 << 25 | DP[op] << 21 | s << 20 | rn << 16 | rd << 12 | rot << 8 | imm8

    @staticmethod
    def dp_reg(op, rd, rn, rm, s=0, cond=AL, shift=0, stype=0):
        return cond << 28 | DP[op] << 21 | s << 20 | rn << 16 | rd << 12 | shift << 7 | stype << 5 | rm

    @staticmethod
    def mov_imm(rd, imm8, s=0, cond=AL):
        return A.dp_imm('mov', rd, 0, imm8, s, 0, cond)

    @staticmethod
    def mov_reg(rd, rm, s=0, cond=AL):
        return A.dp_reg('mov', rd, 0, rm, s, cond)

    @staticmethod
    def movw(rd, imm16, cond=AL):
        return cond << 28 | 0x03000000 | (imm16 >> 12) << 16 | rd << 12 | (imm16 & 0xFFF)

    @staticmethod
    def movt(rd, imm16, cond=AL):
        return cond << 28 | 0x03400000 | (imm16 >> 12) << 16 | rd << 12 | (imm16 & 0xFFF)

    @staticmethod
    def ldst(load, rt, rn, imm12=0, p=1, u=1, w=0, byte=0, cond=AL):
        return cond << 28 | 1 << 26 | p << 24 | u << 23 | byte << 22 | w << 21 | load << 20 | rn << 16 | rt << 12 | imm12

    @staticmethod
    def ldr(rt, rn, imm=0, **k):
        return A.ldst(1, rt, rn, imm, **k)

    @staticmethod
    def str_(rt, rn, imm=0, **k):
        return A.ldst(0, rt, rn, imm, **k)

    @staticmethod
    def ldsth(kind, rt, rn, imm8=0, p=1, u=1, w=0, cond=AL):
        # kind: 'strh','ldrh','ldrd','strd','ldrsb','ldrsh'
        l, op = {'strh': (0, 0b1011), 'ldrh': (1, 0b1011), 'ldrd': (0, 0b1101), 'strd': (0, 0b1111),
                 'ldrsb': (1, 0b1101), 'ldrsh': (1, 0b1111)}[kind]
        return (cond << 28 | p << 24 | u << 23 | 1 << 22 | w << 21 | l << 20 | rn << 16 | rt << 12 |
                (imm8 >> 4) << 8 | op << 4 | (imm8 & 0xF))

    @staticmethod
    def ldstm(load, rn, regs, p=0, u=1, w=0, s=0, cond=AL):
        return cond << 28 | 4 << 25 | p << 24 | u << 23 | s << 22 | w << 21 | load << 20 | rn << 16 | regs

    @staticmethod
    def push(regs, cond=AL):
        return A.ldstm(0, 13, regs, p=1, u=0, w=1, cond=cond)

    @staticmethod
    def pop(regs, cond=AL):
        return A.ldstm(1, 13, regs, p=0, u=1, w=1, cond=cond)

    @staticmethod
    def b(offset, link=0, cond=AL):
        """offset in bytes relative to the branch instruction's own address"""
        return cond << 28 | 5 << 25 | link << 24 | (((offset - 8) >> 2) & 0xFFFFFF)

    @staticmethod
    def bx(rm, cond=AL):
        return cond << 28 | 0x012FFF10 | rm

    @staticmethod
    def svc(imm=0, cond=AL):
        return cond << 28 | 0xF << 24 | imm

    @staticmethod
    def smc(imm4=0, cond=AL):
        return cond << 28 | 0x01600070 | imm4

    @staticmethod
    def udf(imm=0):
        return 0xE7F000F0 | (imm & 0xF) | ((imm >> 4) & 0xFFF) << 8

    @staticmethod
    def hint(n, cond=AL):   # 0 nop 1 yield 2 wfe 3 wfi 4 sev
        return cond << 28 | 0x0320F000 | n

    @staticmethod
    def mrs(rd, spsr=0, cond=AL):
        return cond << 28 | 0x010F0000 | spsr << 22 | rd << 12

    @staticmethod
    def msr_reg(rn, mask, spsr=0, cond=AL):
        return cond << 28 | 0x0120F000 | spsr << 22 | mask << 16 | rn

    @staticmethod
    def msr_imm(imm8, mask, spsr=0, rot=0, cond=AL):
        return cond << 28 | 0x0320F000 | spsr << 22 | mask << 16 | rot << 8 | imm8

    @staticmethod
    def cps(imod, aif=0, mode=None):
        return 0xF1000000 | imod << 18 | (1 << 17 if mode is not None else 0) | aif << 6 | (mode or 0)

    @staticmethod
    def setend(e):
        return 0xF1010000 | e << 9

    @staticmethod
    def srs(mode, p=1, u=0, w=1):
        return 0xF84D0500 | p << 24 | u << 23 | w << 21 | mode

    @staticmethod
    def rfe(rn, p=0, u=1, w=1):
        return 0xF8100A00 | p << 24 | u << 23 | w << 21 | rn << 16

    @staticmethod
    def subs_pc_lr(imm8, cond=AL):
        return cond << 28 | 0x025EF000 | imm8

    @staticmethod
    def movs_pc_lr(cond=AL):
        return cond << 28 | 0x01B0F00E

    @staticmethod
    def eret(cond=AL):
        return cond << 28 | 0x0160006E

    @staticmethod
    def ldrt(rt, rn, imm12=0, u=1, cond=AL):
        return cond << 28 | 0x04300000 | u << 23 | rn << 16 | rt << 12 | imm12

    @staticmethod
    def strt(rt, rn, imm12=0, u=1, cond=AL):
        return cond << 28 | 0x04200000 | u << 23 | rn << 16 | rt << 12 | imm12

    @staticmethod
    def ldrbt(rt, rn, imm12=0, u=1, cond=AL):
        return cond << 28 | 0x04700000 | u << 23 | rn << 16 | rt << 12 | imm12

    @staticmethod
    def strbt(rt, rn, imm12=0, u=1, cond=AL):
        return cond << 28 | 0x04600000 | u << 23 | rn << 16 | rt << 12 | imm12

    @staticmethod
    def mcr(cp, opc1, rt, crn, crm, opc2=0, cond=AL):
        return cond << 28 | 0x0E000010 | opc1 << 21 | crn << 16 | rt << 12 | cp << 8 | opc2 << 5 | crm

    @staticmethod
    def mrc(cp, opc1, rt, crn, crm, opc2=0, cond=AL):
        return A.mcr(cp, opc1, rt, crn, crm, opc2, cond) | 1 << 20

    @staticmethod
    def cdp(cp, opc1, crd, crn, crm, opc2=0, cond=AL):
        return cond << 28 | 0x0E000000 | opc1 << 20 | crn << 16 | crd << 12 | cp << 8 | opc2 << 5 | crm

    @staticmethod
    def ldc(cp, crd, rn, imm8=0, p=1, u=1, w=0, load=1, cond=AL):
        return cond << 28 | 0x0C000000 | p << 24 | u << 23 | w << 21 | load << 20 | rn << 16 | crd << 12 | cp << 8 | imm8

    @staticmethod
    def mcrr(cp, opc1, rt, rt2, crm, load=0, cond=AL):
        return cond << 28 | 0x0C400000 | load << 20 | rt2 << 16 | rt << 12 | cp << 8 | opc1 << 4 | crm

    NOP = 0xE320F000
    SELF = 0xEAFFFFFE     # b .


class T:
    """Thumb encodings"""

    @staticmethod
    def mov_imm(rd, imm8):
        return 0x2000 | rd << 8 | imm8

    @staticmethod
    def cmp_imm(rn, imm8):
        return 0x2800 | rn << 8 | imm8

    @staticmethod
    def add_imm8(rdn, imm8):
        return 0x3000 | rdn << 8 | imm8

    @staticmethod
    def sub_imm8(rdn, imm8):
        return 0x3800 | rdn << 8 | imm8

    @staticmethod
    def add_imm3(rd, rn, imm3):
        return 0x1C00 | imm3 << 6 | rn << 3 | rd

    @staticmethod
    def sub_imm3(rd, rn, imm3):
        return 0x1E00 | imm3 << 6 | rn << 3 | rd

    @staticmethod
    def add_reg(rd, rn, rm):
        return 0x1800 | rm << 6 | rn << 3 | rd

    @staticmethod
    def sub_reg(rd, rn, rm):
        return 0x1A00 | rm << 6 | rn << 3 | rd

    @staticmethod
    def shift_imm(op, rd, rm, imm5):   # op 0 lsl 1 lsr 2 asr
        return op << 11 | imm5 << 6 | rm << 3 | rd

    @staticmethod
    def dp(op4, rdn, rm):
        return 0x4000 | op4 << 6 | rm << 3 | rdn

    @staticmethod
    def mov_reg(rd, rm):   # T1, no flags, any registers
        return 0x4600 | (rd >> 3) << 7 | rm << 3 | (rd & 7)

    @staticmethod
    def ldst_imm(kind, rt, rn, imm5=0):
        base = {'str': 0x6000, 'ldr': 0x6800, 'strb': 0x7000, 'ldrb': 0x7800, 'strh': 0x8000, 'ldrh': 0x8800}[kind]
        return base | imm5 << 6 | rn << 3 | rt

    @staticmethod
    def ldr_sp(rt, imm8=0):
        return 0x9800 | rt << 8 | imm8

    @staticmethod
    def str_sp(rt, imm8=0):
        return 0x9000 | rt << 8 | imm8

    @staticmethod
    def push(list8, lr=0):
        return 0xB400 | lr << 8 | list8

    @staticmethod
    def pop(list8, pc=0):
        return 0xBC00 | pc << 8 | list8

    @staticmethod
    def stmia(rn, list8):
        return 0xC000 | rn << 8 | list8

    @staticmethod
    def ldmia(rn, list8):
        return 0xC800 | rn << 8 | list8

    @staticmethod
    def b(offset):
        """unconditional T2; offset in bytes relative to the instruction's own address"""
        return 0xE000 | (((offset - 4) >> 1) & 0x7FF)

    @staticmethod
    def bcond(cond, offset):
        return 0xD000 | cond << 8 | (((offset - 4) >> 1) & 0xFF)

    @staticmethod
    def cbz(rn, offset, nonzero=0):
        imm = (offset - 4) >> 1
        return 0xB100 | nonzero << 11 | (imm >> 5) << 9 | (imm & 0x1F) << 3 | rn

    @staticmethod
    def bx(rm):
        return 0x4700 | rm << 3

    @staticmethod
    def svc(imm8=0):
        return 0xDF00 | imm8

    @staticmethod
    def udf(imm8=0):
        return 0xDE00 | imm8

    @staticmethod
    def it(firstcond, mask):
        return 0xBF00 | firstcond << 4 | mask

    @staticmethod
    def hint(n):
        return 0xBF00 | n << 4

    @staticmethod
    def cps(disable, aif):
        return 0xB660 | disable << 4 | aif

    @staticmethod
    def setend(e):
        return 0xB650 | e << 3

    # ---- 32-bit
    @staticmethod
    def mov_w(rd, imm8, s=0):
        return 0xF04F0000 | s << 20 | rd << 8 | imm8

    @staticmethod
    def add_w(rd, rn, imm8, s=0):
        return 0xF1000000 | s << 20 | rn << 16 | rd << 8 | imm8

    @staticmethod
    def movw(rd, imm16):
        return 0xF2400000 | ((imm16 >> 11) & 1) << 26 | (imm16 >> 12) << 16 | ((imm16 >> 8) & 7) << 12 | rd << 8 | (imm16 & 0xFF)

    @staticmethod
    def movt(rd, imm16):
        return T.movw(rd, imm16) | 0x00800000

    @staticmethod
    def ldr_w(rt, rn, imm12=0):
        return 0xF8D00000 | rn << 16 | rt << 12 | imm12

    @staticmethod
    def str_w(rt, rn, imm12=0):
        return 0xF8C00000 | rn << 16 | rt << 12 | imm12

    @staticmethod
    def ldst_t4(load, rt, rn, imm8=0, p=1, u=1, w=0, size=2):
        # size 0 byte 1 half 2 word
        return 0xF8000800 | size << 21 | load << 20 | rn << 16 | rt << 12 | p << 10 | u << 9 | w << 8 | imm8

    @staticmethod
    def ldstd(load, rt, rt2, rn, imm8=0, p=1, u=1, w=0):
        return 0xE8400000 | p << 24 | u << 23 | w << 21 | load << 20 | rn << 16 | rt << 12 | rt2 << 8 | imm8

    @staticmethod
    def ldstm_w(load, rn, regs, db=0, w=0):
        return (0xE9000000 if db else 0xE8800000) | w << 21 | load << 20 | rn << 16 | regs

    @staticmethod
    def subs_pc_lr(imm8):
        return 0xF3DE8F00 | imm8

    @staticmethod
    def srs(mode, db=0, w=1):
        return (0xE80DC000 if db else 0xE98DC000) | w << 21 | mode

    @staticmethod
    def rfe(rn, db=0, w=1):
        return (0xE810C000 if db else 0xE990C000) | w << 21 | rn << 16

    @staticmethod
    def mrs(rd, spsr=0):
        return 0xF3EF8000 | spsr << 20 | rd << 8

    @staticmethod
    def msr(rn, mask, spsr=0):
        return 0xF3808000 | spsr << 20 | rn << 16 | mask << 8

    @staticmethod
    def cps_w(imod, aif=0, mode=None):
        return 0xF3AF8000 | imod << 9 | (1 << 8 if mode is not None else 0) | aif << 5 | (mode or 0)

    @staticmethod
    def smc(imm4=0):
        return 0xF7F08000 | imm4 << 16

    @staticmethod
    def udf_w(imm=0):
        return 0xF7F0A000 | (imm & 0xFFF) | ((imm >> 12) & 0xF) << 16

    @staticmethod
    def ldrt(rt, rn, imm8=0):
        return 0xF8500E00 | rn << 16 | rt << 12 | imm8

    @staticmethod
    def strt(rt, rn, imm8=0):
        return 0xF8400E00 | rn << 16 | rt << 12 | imm8

    @staticmethod
    def mcr(cp, opc1, rt, crn, crm, opc2=0):
        return 0xEE000010 | opc1 << 21 | crn << 16 | rt << 12 | cp << 8 | opc2 << 5 | crm

    @staticmethod
    def mrc(cp, opc1, rt, crn, crm, opc2=0):
        return T.mcr(cp, opc1, rt, crn, crm, opc2) | 1 << 20

    NOP = 0xBF00
    NOP_W = 0xF3AF8000
    SELF = 0xE7FE      # b .
    ERET = 0xF3DE8F00


def load_const(rd, value, thumb):
    """MOVW/MOVT pair (ARMv7 / Thumb-2)"""
    if thumb:
        return [T.movw(rd, value & 0xFFFF), T.movt(rd, value >> 16)]
    return [A.movw(rd, value & 0xFFFF), A.movt(rd, value >> 16)]
