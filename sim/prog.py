"""Program mode: real machine code resident in memory — vectors, exception handlers ending in real return instructions,
and generated main programs — executed by the real emulator under the plain Board (no per-tick word feeding).

Layout: vectors at 0x00 (VBAR = 0, V = 0), handlers from 0x100, main program at CODE, main data page at DATA+0x400
(pointer kept in r6), per-mode stacks in STACKS, interrupt controller / supervisor-call page at INTC."""
from . import gen as G
from .asm import A, T, emit, size_of

HANDLER_BASE = 0x100
MON_BASE = 0x400              # MVBAR of program-mode runs
HYP_BASE = 0x600              # HVBAR of program-mode runs
HANDLER_SLOT = 0x80
KINDS = ['und', 'svc', 'pabt', 'dabt', 'hyp', 'irq', 'fiq']
VEC = {'reset': 0x00, 'und': 0x04, 'svc': 0x08, 'pabt': 0x0C, 'dabt': 0x10, 'hyp': 0x14, 'irq': 0x18, 'fiq': 0x1C}
MODE_OF = {'und': 0x1b, 'svc': 0x13, 'dabt': 0x17, 'irq': 0x12, 'fiq': 0x11, 'pabt': 0x17}
# main programs use the usr (or svc) stack, descending from its top; handler stacks start in the MIDDLE of their own 256-byte slot
# because the ascending SRS variants (SRSIA/SRSIB) build their frame above the stack pointer
STACK_TOP = {'usr': G.STACKS + 0x200, 'fiq': G.STACKS + 0x280, 'irq': G.STACKS + 0x380, 'svc': G.STACKS + 0x500, 'abt': G.STACKS + 0x5C0,
             'und': G.STACKS + 0x6C0, 'mon': G.STACKS + 0x7C0, 'hyp': G.STACKS + 0x8C0}
DPTR = 6                      # r6 holds DATA+0x400 in every main program
DBASE = G.DATA + 0x400
_SR = ['srs_rfe', 'srs_rfe_iadb', 'srs_rfe_ibda', 'srs_rfe_daib']         # SRSDB+RFEIA, SRSIA+RFEDB, SRSIB+RFEDA, SRSDA+RFEIB
# 'adds0' .. 'bics0': the other (deprecated but architected) data-processing forms of an exception return with an unchanged LR
_DP0 = ['adds0', 'orrs0', 'eors0', 'bics0']
# 'spsr_subs': the handler saves the SPSR with MRS, the SPSR is then overwritten (what a nested exception to the same mode does to it) and
# restored with MSR SPSR_fsxc before the return - every bit of the saved PSR, the IT/J/T execution state included, must survive the round trip.
# 'spsr_nest' (IRQ/FIQ): the re-entrant form of the same handler - LR and SPSR saved on the stack, the interrupt re-enabled for a window in
# which a second interrupt of the same kind (scheduled by the generators a few ticks after the first) really nests into the same mode
RETURNS_ARM = {'irq': ['subs', 'ldm^', 'spsr_subs', 'spsr_nest'] + _SR, 'fiq': ['subs', 'ldm^', 'spsr_subs', 'spsr_nest'] + _SR, 'svc': ['movs', 'ldm^', 'spsr_subs'] + _SR + _DP0,
               'und': ['movs', 'ldm^', 'spsr_subs'] + _SR + _DP0, 'dabt': ['subs8', 'ldm^8', 'spsr_subs8'] + [x + '8' for x in _SR]}
# 'it_subs': the return instruction is the (last and only) slot of an IT block of the handler itself
RETURNS_THUMB = {'irq': ['subs', 'srs_rfe', 'srs_rfe_iadb', 'it_subs', 'spsr_subs', 'spsr_nest'], 'fiq': ['subs', 'srs_rfe', 'srs_rfe_iadb', 'it_subs', 'spsr_subs', 'spsr_nest'],
                 'svc': ['movs', 'srs_rfe', 'srs_rfe_iadb', 'it_subs', 'spsr_subs'], 'und': ['movs', 'srs_rfe', 'srs_rfe_iadb', 'it_subs', 'spsr_subs'],
                 'dabt': ['subs8', 'srs_rfe8', 'srs_rfe_iadb8', 'it_subs8', 'spsr_subs8']}


def _intc_const_arm(rd):
    return [A.dp_imm('mov', rd, 0, 0x01, rot=7)]            # 1 ROR 14 = 0x40000


def handler_arm(kind, ret, clobber=True, mode=None):
    """ARM-state handler for 'kind' returning with 'ret'; returns list of words"""
    mode = mode or MODE_OF[kind]
    adj = {'irq': 4, 'fiq': 4, 'svc': 0, 'und': 0, 'dabt': 8}[kind]
    body = []
    if kind in ('irq', 'fiq'):
        body += _intc_const_arm(0) + [A.str_(0, 0, 0 if kind == 'irq' else 4)]            # acknowledge: de-asserts the line
    if kind == 'dabt':
        body += _intc_const_arm(0) + [A.str_(0, 0, 8)]                                     # supervisor call: "grant the faulting access"
    if kind == 'und' and ret == 'patch_retry':
        body += _intc_const_arm(0) + [A.str_(0, 0, 12)]                                    # supervisor call: "patch the instruction into a NOP"
    if clobber:
        body += [A.mov_imm(1, 0xAA), A.dp_imm('mov', 2, 0, 0, s=1), A.dp_imm('mvn', 3, 0, 0, s=1), A.mov_imm(12, 0x55)]
    base = ret.rstrip('8')
    if base == 'patch_retry':
        return [A.push(0x100F)] + body + [A.pop(0x100F), A.subs_pc_lr(2)]                  # retry the (16-bit Thumb) instruction
    if base in ('subs', 'movs'):
        w = [A.push(0x100F)] + body + [A.pop(0x100F)]
        w.append(A.movs_pc_lr() if (base == 'movs' and adj == 0) else A.subs_pc_lr(adj))
        return w
    if base == 'spsr_nest':
        aif = 2 if kind == 'irq' else 1
        return ([A.dp_imm('sub', 14, 14, adj), A.push(0x500F), A.mrs(0, 1), A.push(0x0001)] + body + [A.cps(2, aif), A.NOP, A.NOP, A.cps(3, aif), A.pop(0x0001),
                                                                                                A.msr_reg(0, 0xF, 1), A.ldstm(1, 13, 0x900F, p=0, u=1, w=1, s=1)])
    if base == 'spsr_subs':
        return ([A.push(0x100F), A.mrs(0, 1), A.push(0x0001)] + body + [A.mov_imm(1, 0xD3), A.msr_reg(1, 0xF, 1), A.pop(0x0001), A.msr_reg(0, 0xF, 1),
                                                                     A.pop(0x100F), A.subs_pc_lr(adj)])
    if base in _DP0:
        assert adj == 0
        return [A.push(0x100F)] + body + [A.pop(0x100F), A.dp_imm({'adds0': 'add', 'orrs0': 'orr', 'eors0': 'eor', 'bics0': 'bic'}[base], 15, 14, 0, s=1)]
    if base == 'ldm^':
        w = ([A.dp_imm('sub', 14, 14, adj)] if adj else []) + [A.push(0x500F)] + body + [A.ldstm(1, 13, 0x900F, p=0, u=1, w=1, s=1)]
        return w
    if base == 'srs_rfe':
        w = ([A.dp_imm('sub', 14, 14, adj)] if adj else []) + [A.srs(mode, p=1, u=0, w=1), A.push(0x100F)] + body + [A.pop(0x100F), A.rfe(13, p=0, u=1, w=1)]
        return w
    if base in ('srs_cps_sys_rfe', 'srs_cps_svc_rfe'):
        # the re-entrant / RTOS idiom: save the return state on ANOTHER mode's stack, switch to that mode, return from there with RFE
        tm = 0x1F if base == 'srs_cps_sys_rfe' else 0x13
        return (([A.dp_imm('sub', 14, 14, adj)] if adj else []) + [A.srs(tm, p=1, u=0, w=1), A.cps(0, 0, tm), A.push(0x100F)] + body +
                [A.pop(0x100F), A.rfe(13, p=0, u=1, w=1)])
    if base in ('srs_rfe_iadb', 'srs_rfe_ibda', 'srs_rfe_daib'):
        # the other three SRS/RFE addressing pairs; ascending frames need a gap before the (descending) PUSH
        sp_, su, rp, ru, gap = {'srs_rfe_iadb': (0, 1, 1, 0, 32), 'srs_rfe_ibda': (1, 1, 0, 0, 32), 'srs_rfe_daib': (0, 0, 1, 1, 0)}[base]
        w = ([A.dp_imm('sub', 14, 14, adj)] if adj else []) + [A.srs(mode, p=sp_, u=su, w=1)]
        w += ([A.dp_imm('add', 13, 13, gap)] if gap else []) + [A.push(0x100F)] + body + [A.pop(0x100F)] + ([A.dp_imm('sub', 13, 13, gap)] if gap else [])
        return w + [A.rfe(13, p=rp, u=ru, w=1)]
    raise ValueError(ret)


def handler_thumb(kind, ret, clobber=True, mode=None):
    mode = mode or MODE_OF[kind]
    adj = {'irq': 4, 'fiq': 4, 'svc': 0, 'und': 0, 'dabt': 8}[kind]
    body = []
    if kind in ('irq', 'fiq', 'dabt') or (kind == 'und' and ret == 'patch_retry'):
        body += [T.mov_imm(0, 1), T.shift_imm(0, 0, 0, 18), T.ldst_imm('str', 0, 0, {'irq': 0, 'fiq': 1, 'dabt': 2, 'und': 3}[kind])]
    if clobber:
        body += [T.mov_imm(1, 0xAA), T.mov_imm(2, 0), T.dp(15, 3, 2)]
    base = ret.rstrip('8')
    if base == 'patch_retry':
        return [T.push(0x0F)] + body + [T.pop(0x0F), T.subs_pc_lr(2)]
    if base == 'eret':
        return [T.push(0x0F)] + body + [T.pop(0x0F), T.ERET]           # Hyp mode: ELR_hyp already is the address to resume at
    if base in ('subs', 'movs'):
        return [T.push(0x0F)] + body + [T.pop(0x0F), T.subs_pc_lr(adj)]
    if base == 'spsr_nest':
        aif = 2 if kind == 'irq' else 1
        return ([0xF1AE0E00 | adj, T.push(0x0F, 1), T.mrs(0, 1), T.push(0x01)] + body + [T.cps(0, aif), T.NOP, T.NOP, T.cps(1, aif), T.pop(0x01), T.msr(0, 0xF, 1),
                                                                                        T.pop(0x0F), 0xF85DEB04, T.subs_pc_lr(0)])           # ... LDR lr,[sp],#4 ; SUBS pc,lr,#0
    if base == 'spsr_subs':
        return ([T.push(0x0F), T.mrs(0, 1), T.push(0x01)] + body + [T.mov_imm(1, 0xD3), T.msr(1, 0xF, 1), T.pop(0x01), T.msr(0, 0xF, 1),
                                                                   T.pop(0x0F), T.subs_pc_lr(adj)])
    if base == 'it_subs':
        return [T.push(0x0F)] + body + [T.pop(0x0F), T.dp(10, 0, 0), T.it(0, 8), T.subs_pc_lr(adj)]      # CMP r0,r0 ; IT EQ ; SUBSEQ pc,lr,#adj
    if base == 'srs_rfe':
        pre = [0xF1AE0E00 | adj] if adj else []                  # SUB.W lr, lr, #adj
        return pre + [T.srs(mode, db=1, w=1), T.push(0x0F)] + body + [T.pop(0x0F), T.rfe(13, db=0, w=1)]
    if base in ('srs_cps_sys_rfe', 'srs_cps_svc_rfe'):
        tm = 0x1F if base == 'srs_cps_sys_rfe' else 0x13
        pre = [0xF1AE0E00 | adj] if adj else []
        return pre + [T.srs(tm, db=1, w=1), T.cps_w(0, 0, tm), T.push(0x0F)] + body + [T.pop(0x0F), T.rfe(13, db=0, w=1)]
    if base == 'srs_rfe_iadb':
        pre = [0xF1AE0E00 | adj] if adj else []
        return pre + [T.srs(mode, db=0, w=1), 0xB008, T.push(0x0F)] + body + [T.pop(0x0F), 0xB088, T.rfe(13, db=1, w=1)]      # ADD sp,#32 ... SUB sp,#32
    raise ValueError(ret)


def build_low(te, returns, clobber=True):
    """bytes of the LOW page: vectors + handlers.  returns: {'irq': 'subs', ...}.  -> (bytes, {kind: (addr, len_bytes, n_instr)})"""
    page = bytearray(0x800)
    info = {}
    for i, kind in enumerate(['und', 'svc', 'dabt', 'irq', 'fiq']):
        haddr = HANDLER_BASE + HANDLER_SLOT * i
        words = (handler_thumb if te else handler_arm)(kind, returns[kind], clobber)
        code = emit(words, te)
        assert len(code) <= HANDLER_SLOT
        page[haddr:haddr + len(code)] = code
        info[kind] = (haddr, len(code), len(words))
        v = VEC[kind]
        if te:
            page[v:v + 4] = emit([T.b(haddr - v), T.NOP], True)
        else:
            page[v:v + 4] = emit([A.b(haddr - v)], False)
    # Monitor vector table at MVBAR = 0x400 with its own IRQ/FIQ handlers (used when SCR.IRQ / SCR.FIQ route interrupts to Monitor mode)
    for i, kind in enumerate(['irq', 'fiq']):
        haddr = MON_BASE + 0x80 + HANDLER_SLOT * i
        words = (handler_thumb if te else handler_arm)(kind, returns.get('mon_' + kind, returns[kind]), clobber, mode=0x16)
        code = emit(words, te)
        assert len(code) <= HANDLER_SLOT
        page[haddr:haddr + len(code)] = code
        info['mon_' + kind] = (haddr, len(code), len(words))
        v = MON_BASE + VEC[kind]
        page[v:v + 4] = emit([T.b(haddr - v), T.NOP], True) if te else emit([A.b(haddr - v)], False)
    # Secure Monitor Call: handler behind MVBAR+8, returns to the instruction after the SMC
    haddr = MON_BASE + 0x80 + HANDLER_SLOT * 2
    words = (handler_thumb if te else handler_arm)('svc', returns.get('mon_smc', returns['svc']), clobber, mode=0x16)
    code = emit(words, te)
    page[haddr:haddr + len(code)] = code
    info['mon_smc'] = (haddr, len(code), len(words))
    v = MON_BASE + 0x08
    page[v:v + 4] = emit([T.b(haddr - v), T.NOP], True) if te else emit([A.b(haddr - v)], False)
    for off in (0x00, 0x04, 0x0C, 0x10, 0x14):
        v = MON_BASE + off
        page[v:v + 4] = emit([T.SELF, T.NOP], True) if te else emit([A.SELF], False)
    # Hyp vector table at HVBAR = 0x600 (always Thumb code: HSCTLR.TE=1, the ARM encoding of ERET is not implemented by the emulator):
    # IRQ / FIQ handlers for runs that route physical interrupts to Hyp mode (HCR.IMO / HCR.FMO); they return with ERET
    for i, kind in enumerate(['irq', 'fiq']):
        haddr = HYP_BASE + 0x40 + HANDLER_SLOT * i
        words = handler_thumb(kind, 'eret', clobber, mode=0x1a)
        code = emit(words, True)
        assert len(code) <= HANDLER_SLOT
        page[haddr:haddr + len(code)] = code
        info['hyp_' + kind] = (haddr, len(code), len(words))
        v = HYP_BASE + VEC[kind]
        page[v:v + 4] = emit([T.b(haddr - v), T.NOP], True)
    for off in (0x00, 0x04, 0x08, 0x0C, 0x10, 0x14):
        v = HYP_BASE + off
        page[v:v + 4] = emit([T.SELF, T.NOP], True)
    # Hyp Trap vector (HVBAR+0x14): SVC executed in Non-secure User mode with HCR.TGE=1 arrives here; ELR_hyp is the instruction after the SVC
    haddr = HYP_BASE + 0x40 + HANDLER_SLOT * 2
    words = handler_thumb('svc', 'eret', clobber, mode=0x1a)
    code = emit(words, True)
    assert haddr + len(code) <= len(page)
    page[haddr:haddr + len(code)] = code
    info['hyp_svc'] = (haddr, len(code), len(words))
    v = HYP_BASE + 0x14
    page[v:v + 4] = emit([T.b(haddr - v), T.NOP], True)
    # unused vectors: branch to self (observable as a stuck run)
    for kind in ('reset', 'pabt', 'hyp'):
        v = VEC[kind]
        page[v:v + 4] = emit([T.SELF, T.NOP], True) if te else emit([A.SELF], False)
    return bytes(page), info


# ------------------------------------------------------------------ main programs

class MainGen:
    """seeded generator of well-behaved main programs: r0-r5 scratch, r6 = data pointer, data accesses stay in
    [DBASE, DBASE+0x100), stack stays in its own page, every loop terminates, ends in 'b .'"""

    def __init__(self, rng, thumb, priv, arch7=True, allow=('alu', 'mem', 'stack', 'loop', 'cond', 'svc', 'udf', 'it', 'multi'), sec=False):
        self.rng, self.thumb, self.priv, self.arch7, self.sec = rng, thumb, priv, arch7, sec
        self.allow = set(allow)
        self.words = []

    def lo(self):
        return self.rng.randrange(0, 6)

    def alu(self):
        rng = self.rng
        if self.thumb:
            k = rng.randrange(9)
            return [[T.mov_imm(self.lo(), rng.getrandbits(8))], [T.add_imm8(self.lo(), rng.getrandbits(8))], [T.sub_imm8(self.lo(), rng.getrandbits(8))],
                    [T.add_reg(self.lo(), self.lo(), self.lo())], [T.sub_reg(self.lo(), self.lo(), self.lo())], [T.cmp_imm(self.lo(), rng.getrandbits(8))],
                    [T.dp(rng.choice([0, 1, 5, 6, 12, 14, 15, 8, 10, 11]), self.lo(), self.lo())], [T.shift_imm(rng.randrange(3), self.lo(), self.lo(), rng.randrange(1, 32))],
                    [T.add_w(self.lo(), self.lo(), rng.getrandbits(8), rng.getrandbits(1))]][k]
        op = rng.choice(['and', 'eor', 'sub', 'rsb', 'add', 'adc', 'sbc', 'orr', 'mov', 'bic', 'mvn', 'cmp', 'cmn', 'tst'])
        s = 1 if op in ('cmp', 'cmn', 'tst') else rng.getrandbits(1)
        rd = 0 if op in ('cmp', 'cmn', 'tst') else self.lo()
        if rng.getrandbits(1):
            return [A.dp_imm(op, rd, self.lo(), rng.getrandbits(8), s=s, rot=rng.choice([0, 0, 4, 12]))]
        return [A.dp_reg(op, rd, self.lo(), self.lo(), s=s, shift=rng.choice([0, 0, 1, 8, 31]), stype=rng.randrange(4))]

    def mem(self):
        rng = self.rng
        rt = self.lo()
        if self.thumb:
            kind = rng.choice(['str', 'ldr', 'strb', 'ldrb', 'strh', 'ldrh'])
            return [T.ldst_imm(kind, rt, DPTR, rng.randrange(0, 16))]
        k = rng.randrange(4)
        if k == 0:
            return [A.ldst(rng.getrandbits(1), rt, DPTR, 4 * rng.randrange(0, 32))]
        if k == 1:
            return [A.ldst(rng.getrandbits(1), rt, DPTR, rng.randrange(0, 128), byte=1)]
        if k == 2:
            return [A.ldsth(rng.choice(['strh', 'ldrh', 'ldrsh', 'ldrsb']), rt, DPTR, 2 * rng.randrange(0, 64))]
        rt &= ~1
        return [A.ldsth(rng.choice(['ldrd', 'strd']), rt, DPTR, 8 * rng.randrange(0, 16))]

    def multi(self):
        rng = self.rng
        lst = rng.sample(range(0, 5), rng.randrange(1, 4))
        mask = 0
        for x in lst:
            mask |= 1 << x
        load = rng.getrandbits(1)
        if self.thumb:
            return [T.mov_reg(5, DPTR), (T.ldmia if load else T.stmia)(5, mask & ~(1 << 5))]
        return [A.mov_reg(5, DPTR), A.ldstm(load, 5, mask, p=rng.getrandbits(1), u=1, w=1)]

    def stack(self):
        rng = self.rng
        mask = rng.getrandbits(6) or 1
        inner = []
        for _ in range(rng.randrange(0, 3)):
            inner += self.alu()
        if self.thumb:
            return [T.push(mask)] + inner + [T.pop(mask)]
        return [A.push(mask)] + inner + [A.pop(mask)]

    def cond(self):
        rng = self.rng
        c = rng.randrange(14)
        if self.thumb:
            # conditional branch over one instruction
            body = self.alu()
            n = sum(size_of(w, True) for w in body)
            return [T.bcond(c, 2 + n)] + body
        w = self.alu()[0]
        return [(w & 0x0FFFFFFF) | c << 28]

    def it_block(self):
        rng = self.rng
        n = rng.randrange(1, 5)
        first = rng.randrange(14)
        pattern = [1] + [rng.getrandbits(1) for _ in range(n - 1)]       # 1 = then, 0 = else
        mask = 0
        for i in range(1, n):
            bit = (first & 1) if pattern[i] else ((first & 1) ^ 1)
            mask |= bit << (4 - i)
        mask |= 1 << (4 - n)
        body = []
        for i in range(n):
            k = rng.randrange(4)
            body.append([T.mov_imm(self.lo(), rng.getrandbits(8)), T.add_imm8(self.lo(), rng.getrandbits(8)), T.ldst_imm(rng.choice(['str', 'ldr']), self.lo(), DPTR, rng.randrange(16)),
                         T.add_reg(self.lo(), self.lo(), self.lo())][k])
        # a supervisor / secure-monitor call as the last slot: the saved PSR must carry the retired IT state
        if 'svc' in self.allow and rng.random() < 0.2:
            body[-1] = T.svc(rng.getrandbits(8))
        elif 'smc' in self.allow and self.priv and self.sec and rng.random() < 0.25:
            body[-1] = T.smc(rng.getrandbits(4))
        return [T.it(first, mask)] + body

    def loop(self):
        rng = self.rng
        n = rng.randrange(2, 5)
        body = []
        for _ in range(rng.randrange(1, 4)):
            body += rng.choice([self.alu, self.mem, self.stack])()
        # r4 is the loop counter: body must not write it
        body = [w for w in body if not self._writes(w, 4)]
        if self.thumb:
            size = sum(size_of(w, True) for w in body) + 2
            return [T.mov_imm(4, n)] + body + [T.sub_imm8(4, 1), T.bcond(1, -size)]
        size = 4 * len(body) + 4
        return [A.mov_imm(4, n)] + body + [A.dp_imm('sub', 4, 4, 1, s=1), A.b(-size, cond=1)]

    def _writes(self, w, reg):
        # conservative: any occurrence of the register number in a destination-looking field
        if self.thumb:
            if w > 0xFFFF:
                return ((w >> 8) & 0xF) == reg or ((w >> 12) & 0xF) == reg
            return (w & 7) == reg or ((w >> 8) & 7) == reg or (w & 0xFE00) in (0xB400, 0xBC00) and (w >> reg) & 1
        return ((w >> 12) & 0xF) == reg or (((w >> 25) & 7) == 4 and (w >> reg) & 1)

    def generate(self, n_blocks):
        rng = self.rng
        kinds = [k for k in ('alu', 'alu', 'alu', 'mem', 'mem', 'stack', 'loop', 'cond', 'multi', 'svc', 'udf', 'it', 'smc') if k in self.allow and (k != 'smc' or (self.priv and self.sec))]
        if not self.thumb and 'it' in kinds:
            kinds.remove('it')
        out = []
        for _ in range(n_blocks):
            k = rng.choice(kinds)
            if k == 'alu':
                out += self.alu()
            elif k == 'mem':
                out += self.mem()
            elif k == 'stack':
                out += self.stack()
            elif k == 'loop':
                out += self.loop()
            elif k == 'cond':
                out += self.cond()
            elif k == 'multi':
                out += self.multi()
            elif k == 'it':
                out += self.it_block()
            elif k == 'svc':
                out.append(T.svc(rng.getrandbits(8)) if self.thumb else A.svc(rng.getrandbits(16)))
            elif k == 'udf':
                out.append(T.udf(rng.getrandbits(8)) if self.thumb else A.udf(rng.getrandbits(8)))
            elif k == 'smc':
                out.append(T.smc(rng.getrandbits(4)) if self.thumb else A.smc(rng.getrandbits(4)))
        out.append(T.SELF if self.thumb else A.SELF)
        return out


def main_state(rng, cfg, mode, thumb, te, extra_sys=None, e=0, ee=0):
    """start state of a program-mode run: main mode, stacks, data pointer, vectors at 0; e = data endianness of the main program,
    ee = SCTLR.EE (data endianness of the handlers)"""
    cpsr = G.random_cpsr(rng, cfg, mode=mode, thumb=thumb, e=e) & ~0x1C0
    R = {n: rng.getrandbits(32) for n in ['R%dusr' % i for i in range(13)] + ['R%dfiq' % i for i in range(8, 13)]}
    R['R6usr'] = DBASE
    for m, top in STACK_TOP.items():
        R['SP' + m] = top
    for m in ('usr', 'fiq', 'irq', 'svc', 'abt', 'und', 'mon'):
        R['LR' + m] = rng.getrandbits(32) & ~3
    # SCTLR.VE: IRQ and FIQ enter through the IMPLEMENTATION DEFINED vectors - which the shipped configuration puts at 0x18 / 0x1C, where the handlers are anyway
    sys = {'sctlr': G.sctlr_value(m=0, a=0, u=1, te=te, v=0, br=1, ee=ee, ve=int(rng.random() < 0.3)), 'vbar': 0, 'mvbar': MON_BASE}
    if cfg.get('have_security_ext'):
        sys['scr'] = 0
    sys.update(extra_sys or {})
    return {'cpsr': cpsr, 'pc': G.CODE, 'sys': sys, 'R': R, 'spsr': {k: 0x10 for k in ('fiq', 'irq', 'svc', 'abt', 'und', 'mon', 'hyp')}}
