"""Seeded generators shared by the scenarios: configurations, memory maps, register files, MPU region
sets, instruction-word sources.  Everything takes the run's random.Random; nothing else is random."""
from . import asm
from .asm import A, T
from .machine import MODES

M32 = 0xFFFFFFFF
LOW, CODE, DATA, STACKS, INTC, HIGH = 0x0, 0x10000, 0x20000, 0x30000, 0x40000, 0xFFFF0000
LOW_SZ, CODE_SZ, DATA_SZ, STACKS_SZ, INTC_SZ, HIGH_SZ = 0x1000, 0x2000, 0x1000, 0x1000, 0x100, 0x1000

# SCTLR bit positions
S_M, S_A, S_V, S_U, S_VE, S_EE, S_NMFI, S_TRE, S_AFE, S_TE, S_BR = 0, 1, 13, 22, 24, 25, 27, 28, 29, 30, 17
BASE_SCTLR = 0b01000000000001010000000001111001   # the repo's default reset value (M=1, TE=1, U=0 ...)


def sctlr_value(m=0, a=0, v=0, u=1, ve=0, ee=0, nmfi=0, te=0, br=0, tre=0, afe=0):
    x = BASE_SCTLR & ~(1 << S_M | 1 << S_A | 1 << S_V | 1 << S_U | 1 << S_VE | 1 << S_EE | 1 << S_NMFI | 1 << S_TE |
                       1 << S_BR | 1 << S_TRE | 1 << S_AFE)
    return (x | m << S_M | a << S_A | v << S_V | u << S_U | ve << S_VE | ee << S_EE | nmfi << S_NMFI | te << S_TE |
            br << S_BR | tre << S_TRE | afe << S_AFE)


def std_devices(rec_data=False, intc=True, high=True):
    d = [{'kind': 'ram', 'begin': LOW, 'end': LOW + LOW_SZ},
         {'kind': 'ram', 'begin': CODE, 'end': CODE + CODE_SZ},
         {'kind': 'rec' if rec_data else 'ram', 'begin': DATA, 'end': DATA + DATA_SZ},
         {'kind': 'ram', 'begin': STACKS, 'end': STACKS + STACKS_SZ}]
    if intc:
        d.append({'kind': 'intc', 'begin': INTC, 'end': INTC + INTC_SZ})
    if high:
        d.append({'kind': 'ram', 'begin': HIGH, 'end': HIGH + HIGH_SZ})
    return d


def set_data(dev, off, data):
    dev.setdefault('data', {})[str(off)] = data.hex()


def host_call_blocks(data_dev):
    """parameter blocks for the host-call macro: {handle, buffer, length} twice, the buffers are the seeded bytes at DATA+0x3C0"""
    words = [1, DATA + 0x3C0, 16, 2, DATA + 0x3D0, 8]
    set_data(data_dev, 0x800, b''.join(w.to_bytes(4, 'little') for w in words))


def predecessor_for(rng, cfg):
    """spec of a predecessor instance (machine.run_predecessor) whose extensions differ from cfg's"""
    sec, virt = bool(cfg.get('have_security_ext')), bool(cfg.get('have_virt_ext'))
    psec = rng.random() < 0.6
    pvirt = psec and rng.random() < 0.5
    if (psec, pvirt) == (sec, virt):
        psec, pvirt = (not sec, False) if rng.random() < 0.5 else (True, not virt)
    return {'config': dict(cfg, have_security_ext=psec, have_virt_ext=pvirt, memory_system_architecture='VMSA' if pvirt else cfg.get('memory_system_architecture', 'PMSA')
                           if not virt else 'PMSA'), 'seed': rng.getrandbits(32)}


def legal_modes(cfg):
    ms = ['usr', 'fiq', 'irq', 'svc', 'abt', 'und', 'sys']
    if cfg.get('have_security_ext', True):
        ms.append('mon')
    if cfg.get('have_virt_ext', False):
        ms.append('hyp')
    return ms


def impdef_switches(rng, p=0.25):
    """IMPLEMENTATION DEFINED choices of arm_configurations.json, each flipped away from the shipped value with probability p.  None of them
    may change anything the properties speak about (they select syndrome details, UNKNOWN bits, attribute hints)"""
    out = {}
    for key, val in (('write_hsr_hsr_value_24', True), ('write_hsr_23_22_cond', False), ('dfsr_string_12', 0), ('data_abort_hsr_9', 1),
                     ('data_abort_pmsa_change_dfar', False), ('translation_walk_sd_l1descaddr_attrs_10', False),
                     ('translation_walk_sd_l1descaddr_hints_01', False), ('coproc_accepted_pl0_undefined', False),
                     ('implementation_supports_transient', True)):
        if rng.random() < p:
            out[key] = val
    if rng.random() < p:
        out['processor_id'] = rng.randrange(1, 4)
    return out


def random_config(rng, allow_virt=True, allow_lpae=True, archs=(6, 7, 7, 7, 5), extras=False):
    cfg = {'arch_version': rng.choice(archs)}
    sec = rng.random() < 0.7
    virt = allow_virt and sec and rng.random() < 0.3
    cfg['have_security_ext'] = sec
    cfg['have_virt_ext'] = virt
    cfg['memory_system_architecture'] = 'VMSA' if (virt or rng.random() < 0.35) else 'PMSA'
    cfg['have_lpae'] = bool(allow_lpae and cfg['memory_system_architecture'] == 'VMSA' and rng.random() < 0.15)
    if virt:
        cfg['arch_version'] = 7
    cfg['number_of_mpu_regions'] = rng.choice([12, 12, 8, 16, 4])
    if extras:
        # rarely-used configuration switches (swarm): execution-environment extensions, implementation-defined reset vector, MP/ARMv7-R flags
        if rng.random() < 0.08:
            cfg['have_thumbee'] = True
        if rng.random() < 0.08:
            cfg['have_jazelle'] = True
            cfg['jazelle_accepts_execution'] = bool(rng.getrandbits(1))
        if rng.random() < 0.1:
            cfg['has_imp_def_reset_vector'] = True
            cfg['impdef_reset_vector'] = rng.choice([0, 0x100, 0xFFFF0000, CODE])
        if rng.random() < 0.3:
            cfg['impdef_irq_vector'] = rng.choice([0x18, 0x40, 0x80, 0x200, 0])
            cfg['impdef_fiq_vector'] = rng.choice([0x1C, 0x60, 0xA0, 0x240, 0])
        if rng.random() < 0.1:
            cfg['is_armv7r_profile'] = True
        if rng.random() < 0.1:
            cfg['have_mp_ext'] = True
        if rng.random() < 0.05:
            cfg['arch_version'] = 4 if not virt else 7
        if rng.random() < 0.08:
            cfg['have_adv_simd_or_vfp'] = True
        if rng.random() < 0.06:
            cfg['number_of_mpu_regions'] = rng.choice([0, 1, 2, 32])          # unusual MPU sizes of the configuration file
        cfg.update(impdef_switches(rng))
        if rng.random() < 0.3:
            # reset values for registers the shipped file does not mention (a configuration file may name any register class; the others reset to 0):
            # two files need not have the same SET of keys
            names = rng.sample(['FPEXC', 'HDCR', 'PMCR', 'SDER', 'SUNAVCR', 'TEECR', 'FCSEIDR', 'JMCR', 'DBGDIDR'], rng.choice([1, 2, 3]))
            cfg['reset_values'] = {n_: hex(rng.getrandbits(32)) for n_ in names}
    return cfg


EDGE = [0, 1, 2, 4, 0xFFFFFFFF, 0xFFFFFFFE, 0xFFFFFFFC, 0x7FFFFFFF, 0x80000000, 0xFFFF0000, 0xFF, 0x100]


def random_value(rng):
    k = rng.random()
    if k < 0.35:
        return DATA + 0x400 + rng.randrange(-64, 64)
    if k < 0.5:
        return DATA + 4 * rng.randrange(0, DATA_SZ // 4)
    if k < 0.6:
        return rng.choice(EDGE)
    if k < 0.7:
        return rng.randrange(0, 64)
    if k < 0.8:
        return CODE + 2 * rng.randrange(0, CODE_SZ // 2)
    return rng.getrandbits(32)


def random_regfile(rng, cfg):
    R = {}
    for i in range(8):
        R['R%dusr' % i] = random_value(rng)
    for i in range(8, 13):
        R['R%dusr' % i] = random_value(rng)
        R['R%dfiq' % i] = random_value(rng)
    for m in ('usr', 'fiq', 'irq', 'svc', 'abt', 'und', 'mon', 'hyp'):
        R['SP' + m] = STACKS + 0x100 * (1 + ['usr', 'fiq', 'irq', 'svc', 'abt', 'und', 'mon', 'hyp'].index(m)) if rng.random() < 0.7 else random_value(rng)
    for m in ('usr', 'fiq', 'irq', 'svc', 'abt', 'und', 'mon'):
        R['LR' + m] = random_value(rng)
    return R


def random_spsrs(rng, cfg, valid=True):
    sp = {}
    modes = [MODES[m] for m in legal_modes(cfg)]
    for m in ('fiq', 'irq', 'svc', 'mon', 'abt', 'hyp', 'und'):
        v = rng.getrandbits(32)
        if valid:
            v &= ~(1 << 24)                        # J = 0: Jazelle/ThumbEE states do not exist here
            v = (v & ~0x1F) | rng.choice(modes)
            if not (v >> 5) & 1:
                v &= ~0x0600FC00                   # IT = 0 in ARM state
            elif rng.random() < 0.6:
                v &= ~0x0600FC00
        sp[m] = v
    return sp


def random_cpsr(rng, cfg, mode=None, thumb=None, it=None, valid=True, e=0):
    modes = legal_modes(cfg)
    m = MODES[mode if mode is not None else rng.choice(modes)]
    t = rng.getrandbits(1) if thumb is None else int(thumb)
    v = rng.getrandbits(32) & 0xF80F01C0        # NZCVQ GE A I F
    # data endianness: e=None draws it (big-endian in a quarter of the cases); scenarios whose oracles read memory little-endian keep e=0
    v |= (int(rng.random() < 0.25) if e is None else int(e)) << 9
    v |= m | t << 5
    if t and it:
        v |= (it & 3) << 25 | (it >> 2) << 10
    return v


def random_mpu(rng, nregions, focus=(DATA, CODE, LOW, STACKS)):
    """PMSAv7 region registers: list of (drsr, drbar, dracr)"""
    regs = []
    n = rng.randrange(0, nregions + 1)
    for i in range(nregions):
        en = 1 if (i < n and rng.random() < 0.85) else 0
        rsize = rng.choice([4, 5, 7, 8, 9, 11, 11, 12, 15, 19, 31, rng.randrange(1, 32)])
        ls = rsize + 1
        base = rng.choice(list(focus) + [DATA + 0x400, DATA + 0x800, rng.getrandbits(32)])
        base = ((base >> ls) << ls) & M32 if ls < 32 else 0
        sd = rng.choice([0, 0, 0, rng.getrandbits(8)])
        ap = rng.choice([0, 1, 2, 3, 3, 3, 5, 6])
        regs.append((en | rsize << 1 | sd << 8, base, ap << 8 | rng.getrandbits(6) | rng.getrandbits(1) << 12))
    return regs


def mpu_sys(regs, dregion=None, nu=0):
    """system-register values for a set of MPU regions [(DRSR, DRBAR, DRACR)].  nu=1: the MPU presents itself as non-unified (MPUIR.nU, IREGION) and
    the instruction-side region registers hold the same regions (a legal PMSAv7 option; on a unified implementation they are simply unused)"""
    n = len(regs) if dregion is None else dregion
    d = {'drsrs': [x[0] for x in regs], 'drbars': [x[1] for x in regs], 'dracrs': [x[2] for x in regs], 'mpuir': n << 8}
    if nu:
        d['mpuir'] |= 1 | n << 16
        d.update({'irsrs': [x[0] for x in regs], 'irbars': [x[1] for x in regs], 'iracrs': [x[2] for x in regs]})
    return d


# ------------------------------------------------------------------ instruction word sources

# architected system registers as (coprocessor, opc1, CRn, CRm, opc2): a random MCR/MRC almost never names one of them
SYSREGS = [(15, 0, 0, 0, 0), (15, 0, 0, 0, 4), (15, 0, 0, 0, 5), (15, 0, 1, 0, 0), (15, 0, 1, 0, 1), (15, 0, 1, 0, 2), (15, 0, 1, 1, 0), (15, 0, 1, 1, 1), (15, 0, 1, 1, 2),
           (15, 0, 2, 0, 0), (15, 0, 2, 0, 1), (15, 0, 2, 0, 2), (15, 0, 3, 0, 0), (15, 0, 5, 0, 0), (15, 0, 5, 0, 1), (15, 0, 6, 0, 0), (15, 0, 6, 0, 2),
           (15, 0, 6, 1, 0), (15, 0, 6, 1, 2), (15, 0, 6, 1, 4), (15, 0, 6, 2, 0), (15, 0, 7, 5, 0), (15, 0, 7, 10, 4), (15, 0, 8, 7, 0), (15, 0, 10, 2, 0), (15, 0, 10, 2, 1),
           (15, 0, 12, 0, 0), (15, 0, 12, 0, 1), (15, 0, 12, 1, 0), (15, 0, 13, 0, 0), (15, 0, 13, 0, 1), (15, 0, 13, 0, 2), (15, 0, 13, 0, 3), (15, 0, 13, 0, 4),
           (15, 4, 1, 0, 0), (15, 4, 1, 1, 0), (15, 4, 1, 1, 2), (15, 4, 1, 1, 3), (15, 4, 2, 0, 2), (15, 4, 2, 1, 2), (15, 4, 5, 2, 0), (15, 4, 6, 0, 0), (15, 4, 6, 0, 4),
           (15, 4, 12, 0, 0), (15, 4, 13, 0, 2),
           (14, 6, 0, 0, 0), (14, 6, 1, 0, 0), (14, 7, 0, 0, 0), (14, 7, 1, 0, 0), (14, 7, 2, 0, 0), (14, 0, 0, 0, 0), (14, 0, 0, 1, 0), (14, 0, 1, 0, 0), (14, 1, 0, 0, 0),
           (10, 7, 0, 0, 0), (10, 7, 1, 0, 0), (10, 7, 8, 0, 0)]


def sysreg_word(rng, cond=14):
    """MCR / MRC naming an architected system register (same bit pattern in ARM and, with cond = 0b1110, in Thumb)"""
    cp, o1, crn, crm, o2 = rng.choice(SYSREGS)
    return cond << 28 | 0x0E000010 | o1 << 21 | rng.getrandbits(1) << 20 | crn << 16 | rng.randrange(0, 13) << 12 | cp << 8 | o2 << 5 | crm


def vocab_words(rng, thumb):
    """one random member of the vocabulary with random fields (a valid, meaningful instruction)"""
    r = lambda: rng.randrange(0, 13)
    lo = lambda: rng.randrange(0, 8)
    if not thumb:
        c = rng.choice([AL_OR(rng)])
        k = rng.randrange(1 << 16)
        tab = [
            lambda: A.dp_imm(rng.choice(list(asm.DP)), r(), r(), rng.getrandbits(8), s=rng.getrandbits(1), rot=rng.getrandbits(4), cond=c),
            lambda: A.dp_reg(rng.choice(list(asm.DP)), r(), r(), r(), s=rng.getrandbits(1), cond=c, shift=rng.getrandbits(5), stype=rng.getrandbits(2)),
            lambda: A.ldst(rng.getrandbits(1), r(), r(), rng.getrandbits(6), p=rng.getrandbits(1), u=rng.getrandbits(1), w=rng.getrandbits(1), byte=rng.getrandbits(1), cond=c),
            lambda: A.ldsth(rng.choice(['strh', 'ldrh', 'ldrd', 'strd', 'ldrsb', 'ldrsh']), r() & ~1, r(), rng.getrandbits(5), p=rng.getrandbits(1), u=rng.getrandbits(1), w=rng.getrandbits(1), cond=c),
            lambda: A.ldstm(rng.getrandbits(1), rng.choice([13, r()]), rng.getrandbits(16), p=rng.getrandbits(1), u=rng.getrandbits(1), w=rng.getrandbits(1), s=rng.random() < 0.2, cond=c),
            lambda: A.b(4 * rng.randrange(-8, 8), link=rng.getrandbits(1), cond=c),
            lambda: A.bx(rng.randrange(15), cond=c),
            lambda: A.svc(rng.getrandbits(8), cond=c), lambda: A.smc(rng.getrandbits(4), cond=c), lambda: A.udf(rng.getrandbits(8)),
            lambda: A.hint(rng.randrange(5), cond=c), lambda: A.mrs(r(), rng.getrandbits(1), cond=c),
            lambda: A.msr_reg(r(), rng.getrandbits(4), rng.getrandbits(1), cond=c),
            lambda: A.msr_imm(rng.getrandbits(8), rng.getrandbits(4), rng.getrandbits(1), rot=rng.getrandbits(4), cond=c),
            lambda: A.cps(rng.randrange(4), rng.getrandbits(3), rng.choice([None, rng.getrandbits(5)])),
            lambda: A.setend(rng.getrandbits(1)), lambda: A.srs(rng.getrandbits(5), rng.getrandbits(1), rng.getrandbits(1), rng.getrandbits(1)),
            lambda: A.rfe(rng.randrange(15), rng.getrandbits(1), rng.getrandbits(1), rng.getrandbits(1)),
            lambda: A.subs_pc_lr(rng.getrandbits(4), cond=c), lambda: A.movs_pc_lr(cond=c), lambda: A.eret(cond=c),
            lambda: A.ldrt(r(), r(), rng.getrandbits(5), rng.getrandbits(1), cond=c), lambda: A.strt(r(), r(), rng.getrandbits(5), rng.getrandbits(1), cond=c),
            lambda: A.mcr(rng.randrange(16), rng.getrandbits(3), r(), rng.getrandbits(4), rng.getrandbits(4), rng.getrandbits(3), cond=c),
            lambda: A.mrc(rng.randrange(16), rng.getrandbits(3), r(), rng.getrandbits(4), rng.getrandbits(4), rng.getrandbits(3), cond=c),
            lambda: A.cdp(rng.randrange(16), rng.getrandbits(4), rng.getrandbits(4), rng.getrandbits(4), rng.getrandbits(4), rng.getrandbits(3), cond=c),
            lambda: A.ldc(rng.randrange(16), rng.getrandbits(4), r(), rng.getrandbits(8), rng.getrandbits(1), rng.getrandbits(1), rng.getrandbits(1), rng.getrandbits(1), cond=c),
            lambda: A.mcrr(rng.randrange(16), rng.getrandbits(4), r(), r(), rng.getrandbits(4), rng.getrandbits(1), cond=c),
            lambda: A.movw(r(), rng.getrandbits(16), cond=c), lambda: A.movt(r(), rng.getrandbits(16), cond=c),
            lambda: sysreg_word(rng, c), lambda: sysreg_word(rng, c),
        ]
        return tab[k % len(tab)]()
    k = rng.randrange(1 << 16)
    tab = [
        lambda: T.mov_imm(lo(), rng.getrandbits(8)), lambda: T.cmp_imm(lo(), rng.getrandbits(8)), lambda: T.add_imm8(lo(), rng.getrandbits(8)),
        lambda: T.sub_imm8(lo(), rng.getrandbits(8)), lambda: T.add_imm3(lo(), lo(), rng.getrandbits(3)), lambda: T.add_reg(lo(), lo(), lo()),
        lambda: T.shift_imm(rng.randrange(3), lo(), lo(), rng.getrandbits(5)), lambda: T.dp(rng.getrandbits(4), lo(), lo()),
        lambda: T.mov_reg(r(), r()), lambda: T.ldst_imm(rng.choice(['str', 'ldr', 'strb', 'ldrb', 'strh', 'ldrh']), lo(), lo(), rng.getrandbits(5)),
        lambda: T.ldr_sp(lo(), rng.getrandbits(4)), lambda: T.str_sp(lo(), rng.getrandbits(4)), lambda: T.push(rng.getrandbits(8), rng.getrandbits(1)),
        lambda: T.pop(rng.getrandbits(8), rng.getrandbits(1)), lambda: T.stmia(lo(), rng.getrandbits(8)), lambda: T.ldmia(lo(), rng.getrandbits(8)),
        lambda: T.b(2 * rng.randrange(-8, 8)), lambda: T.bcond(rng.randrange(14), 2 * rng.randrange(-8, 8)), lambda: T.cbz(lo(), 4 + 2 * rng.randrange(0, 8), rng.getrandbits(1)),
        lambda: T.bx(rng.randrange(15)), lambda: T.svc(rng.getrandbits(8)), lambda: T.udf(rng.getrandbits(8)),
        lambda: T.it(rng.randrange(15), rng.randrange(1, 16)), lambda: T.hint(rng.randrange(5)), lambda: T.cps(rng.getrandbits(1), rng.getrandbits(3)),
        lambda: T.setend(rng.getrandbits(1)), lambda: T.mov_w(r(), rng.getrandbits(8), rng.getrandbits(1)), lambda: T.add_w(r(), r(), rng.getrandbits(8), rng.getrandbits(1)),
        lambda: T.ldr_w(r(), r(), rng.getrandbits(6)), lambda: T.str_w(r(), r(), rng.getrandbits(6)),
        lambda: T.ldst_t4(rng.getrandbits(1), r(), r(), rng.getrandbits(5), rng.getrandbits(1), rng.getrandbits(1), rng.getrandbits(1), rng.randrange(3)),
        lambda: T.ldstd(rng.getrandbits(1), r(), r(), r(), rng.getrandbits(5), rng.getrandbits(1), rng.getrandbits(1), rng.getrandbits(1)),
        lambda: T.ldstm_w(rng.getrandbits(1), rng.choice([13, r()]), rng.getrandbits(16) & 0xDFFF, rng.getrandbits(1), rng.getrandbits(1)),
        lambda: T.subs_pc_lr(rng.getrandbits(4)), lambda: T.srs(rng.getrandbits(5), rng.getrandbits(1), rng.getrandbits(1)),
        lambda: T.rfe(rng.randrange(15), rng.getrandbits(1), rng.getrandbits(1)), lambda: T.mrs(r(), rng.getrandbits(1)),
        lambda: T.msr(r(), rng.getrandbits(4), rng.getrandbits(1)), lambda: T.cps_w(rng.randrange(4), rng.getrandbits(3), rng.choice([None, rng.getrandbits(5)])),
        lambda: T.smc(rng.getrandbits(4)), lambda: T.udf_w(rng.getrandbits(8)), lambda: T.ldrt(r(), r(), rng.getrandbits(5)), lambda: T.strt(r(), r(), rng.getrandbits(5)),
        lambda: T.mcr(rng.randrange(16), rng.getrandbits(3), r(), rng.getrandbits(4), rng.getrandbits(4), rng.getrandbits(3)),
        lambda: T.mrc(rng.randrange(16), rng.getrandbits(3), r(), rng.getrandbits(4), rng.getrandbits(4), rng.getrandbits(3)),
        lambda: T.movw(r(), rng.getrandbits(16)), lambda: T.movt(r(), rng.getrandbits(16)),
        lambda: sysreg_word(rng), lambda: sysreg_word(rng),
    ]
    return tab[k % len(tab)]()


def AL_OR(rng):
    return 0xE if rng.random() < 0.7 else rng.randrange(16)


_CENSUS = None


def census():
    """sim/classwords.json: a few instruction words for every concrete opcode class of the repository (built once from the clean tree by
    selftest/classwords_build.py).  Workload only: it makes every class - including single-word encodings such as ISB.W, RRX.W, PUSH.W {rt} - a
    routine visitor of every stream, in every mode and regime, instead of a lucky draw; nothing in an oracle reads it."""
    global _CENSUS
    if _CENSUS is None:
        import json, os
        with open(os.path.join(os.path.dirname(os.path.abspath(__file__)), 'classwords.json')) as f:
            t = json.load(f)
        by = {'A': [], 'T': []}
        for name in sorted(t):
            by['A' if t[name]['isa'] == 'A' else 'T'].append((t[name]['isa'], t[name]['words']))
        _CENSUS = by
    return _CENSUS


def census_word(rng, thumb):
    isa, words = rng.choice(census()['T' if thumb else 'A'])
    w = rng.choice(words)
    if rng.random() < 0.4:
        w ^= 1 << rng.randrange(16 if isa == 'T16' else 32)      # a neighbour: other operands, or the UNPREDICTABLE/UNDEFINED word next door
    if isa == 'T16':
        w = (w & 0xFFFF) << 16 | rng.choice([0xBF00, rng.getrandbits(16)])
    return w


def stream_word(rng, thumb_bias=0.5):
    """a 32-bit stream entry: used as the ARM word in ARM state and as hw1:hw2 in Thumb state"""
    k = rng.random()
    th = rng.random() < thumb_bias
    if k > 0.86:
        return census_word(rng, th)
    if k < 0.30:
        w = rng.getrandbits(32)
        if th and rng.random() < 0.5:
            w = (w & 0x07FFFFFF) | rng.choice([0xE8000000, 0xF0000000, 0xF8000000])   # 32-bit Thumb space
        return w
    w = vocab_words(rng, th)
    if th and w <= 0xFFFF:
        w = w << 16 | rng.choice([0xBF00, rng.getrandbits(16)])
    if k < 0.65:
        nb = rng.choice([1, 1, 1, 2, 3])
        for _ in range(nb):
            w ^= 1 << rng.randrange(32)
    return w


# ------------------------------------------------------------------ correlated multi-instruction idioms ("macros")

def _t16(w):
    return w << 16 | 0xBF00 if w <= 0xFFFF else w


def macro(rng, thumb):
    """a short sequence of RELATED instructions (same base register, matching pairs) as stream entries: single random words
    almost never form these, yet state such as exclusive monitors, IT blocks, stack frames and saved PSRs only exists across them"""
    r = lambda: rng.randrange(0, 13)
    k = rng.randrange(11)
    rn, rt, rd, rx = r(), r(), r(), r()
    if k == 10:
        # a page walker: 36-48 loads/stores, each one 4 KiB after the other (more distinct pages than a small translation or region cache holds),
        # starting at a seeded 64 KiB boundary of the low megabyte
        n = rng.randrange(36, 49)
        if rx == rn:
            rx = (rn + 1) % 13
        if rt in (rn, rx):
            rt = next(x for x in range(13) if x not in (rn, rx))
        base_hi = rng.choice([0, 1, 2, 3, 0x10, 0x11])           # base = base_hi << 16
        ld = rng.random() < 0.7
        if thumb:
            rn, rx = rn & 7, (rx & 7) if (rx & 7) != (rn & 7) else ((rn & 7) + 1) & 7
            rt = next(x for x in range(8) if x not in (rn, rx))
            seq = [T.movw(rn, 0), T.movt(rn, base_hi), T.movw(rx, 0x1000)]
            for _ in range(n):
                seq += [(0xF8500000 if ld else 0xF8400000) | rn << 16 | rt << 12 | rx, _t16(0x4400 | rx << 3 | rn)]      # LDR/STR.W rt,[rn,rx] ; ADD rn,rx
            return seq
        seq = [A.movw(rn, 0), A.movt(rn, base_hi), A.movw(rx, 0x1000)]
        for _ in range(n):
            seq.append((0xE6900000 if ld else 0xE6800000) | rn << 16 | rt << 12 | rx)                                   # LDR/STR rt,[rn],rx
        return seq
    if k == 9:
        # an exception return INTO the middle of an IT block: a saved PSR with T=1 and a live ITSTATE is written to the SPSR and installed by the
        # return; the words that follow run as the rest of that block (what a handler returning to an interrupted IT block does)
        it = rng.randrange(14) << 4 | rng.choice([8, 4, 12, 2, 6, 10, 14, 1, 3, 5, 7, 9, 11, 13, 15])
        psr = rng.getrandbits(4) << 28 | (it & 3) << 25 | (it >> 2) << 10 | 1 << 5 | rng.choice([0x10, 0x10, 0x13, 0x1F, 0x12]) | rng.getrandbits(2) << 6
        if thumb:
            return [T.movw(rt, psr & 0xFFFF), T.movt(rt, psr >> 16), T.msr(rt, 0xF, 1), T.subs_pc_lr(rng.choice([0, 0, 4]))]
        return [A.movw(rt, psr & 0xFFFF), A.movt(rt, psr >> 16), A.msr_reg(rt, 0xF, 1), rng.choice([A.movs_pc_lr(), A.subs_pc_lr(4)])]
    if k == 8:
        # a debugger/host call in the style of ARM semihosting: operation number in r0, parameter block pointer in r1 (the block at DATA+0x800
        # holds {handle, buffer, length}), then the magic SVC / BKPT.  An emulator that serves such calls must stay total and deterministic
        op = rng.choice([0x01, 0x02, 0x03, 0x04, 0x05, 0x05, 0x05, 0x06, 0x07, 0x09, 0x0A, 0x0C, 0x0E, 0x10, 0x10, 0x11, 0x11, 0x12, 0x13, 0x15, 0x16, 0x18, 0x30, 0x31])
        blk = rng.choice([0, 0, 0x0C])
        if thumb:
            return [_t16(T.mov_imm(0, op)), 0xF6400100 | blk, 0xF2C00102, _t16(rng.choice([0xDFAB, 0xDFAB, 0xBEAB]))]
        return [A.mov_imm(0, op), 0xE3001800 | blk, 0xE3401002, rng.choice([0xEF123456, 0xEF123456, 0xE1200A7B, 0xEF0000AB])]          # SVC 0x123456 / BKPT 0xAB / SVC 0xAB
    if k == 0 or k == 1:
        size = rng.choice(['w', 'w', 'b', 'h'])
        if thumb:
            ld = {'w': 0xE8500F00 | rn << 16 | rt << 12, 'b': 0xE8D00F4F | rn << 16 | rt << 12, 'h': 0xE8D00F5F | rn << 16 | rt << 12}[size]
            st = {'w': 0xE8400000 | rn << 16 | rx << 12 | rd << 8, 'b': 0xE8C00F40 | rn << 16 | rx << 12 | rd, 'h': 0xE8C00F50 | rn << 16 | rx << 12 | rd}[size]
            mid = rng.choice([[], [], [_t16(T.ldst_imm('str', rx & 7, rn & 7, 0))], [T.str_w(rx, rn, 0)], [0xF3BF8F2F], [0xE8500F00 | rn << 16 | rd << 12 | 1], [_t16(T.mov_imm(rx & 7, 1))]])
        else:
            ld = {'w': 0xE1900F9F, 'b': 0xE1D00F9F, 'h': 0xE1F00F9F}[size] | rn << 16 | rt << 12
            st = {'w': 0xE1800F90, 'b': 0xE1C00F90, 'h': 0xE1E00F90}[size] | rn << 16 | rd << 12 | rx
            mid = rng.choice([[], [], [A.str_(rx, rn, 0)], [A.ldst(0, rx, rn, 1, byte=1)], [0xF57FF01F], [0xE1900F9F | rn << 16 | rd << 12], [A.mov_imm(rx, 1)]])
        seq = [ld] + mid + [st]
        if rng.random() < 0.3:
            seq.append(st)
        return seq
    if k == 2 and thumb:
        n = rng.randrange(1, 5)
        fc = rng.randrange(15)
        mask = (rng.getrandbits(3) << 1 | 1) << (4 - n) & 0xF if fc != 14 else 1 << (4 - n)
        body = [_t16(rng.choice([T.mov_imm(rng.randrange(8), rng.getrandbits(8)), T.add_imm8(rng.randrange(8), 1), T.dp(rng.getrandbits(4), rng.randrange(8), rng.randrange(8)),
                                 T.ldst_imm('ldr', rng.randrange(8), rn & 7, 0), T.svc(1), T.udf(1)])) for _ in range(n)]
        return [_t16(T.it(fc, mask or 8))] + body
    if k == 3:
        lst = rng.getrandbits(8) or 1
        return [_t16(T.push(lst)), _t16(T.pop(lst))] if thumb else [A.push(lst), A.pop(lst)]
    if k == 4:
        mode = rng.choice([0x11, 0x12, 0x13, 0x17, 0x1b, 0x1f, 0x16])
        if thumb:
            return [T.srs(mode, db=1, w=1), T.rfe(13, db=0, w=1)]
        p_, u_ = rng.getrandbits(1), rng.getrandbits(1)
        return [A.srs(mode, p=p_, u=u_, w=1), A.rfe(13, p=1 - p_, u=1 - u_, w=1)]
    if k == 5:
        return [T.mrs(rt), T.msr(rt, rng.getrandbits(4) or 9)] if thumb else [A.mrs(rt), A.msr_reg(rt, rng.getrandbits(4) or 9)]
    if k == 6:
        lst = (rng.getrandbits(8) & ~(1 << (rn & 7))) or 2
        if thumb:
            return [T.ldstm_w(0, rn, lst, 0, 1), T.ldstm_w(1, rn, lst, 1, 1)]
        return [A.ldstm(0, rn, lst, p=0, u=1, w=1), A.ldstm(1, rn, lst, p=1, u=0, w=1)]
    w = vocab_words(rng, thumb)
    if thumb:
        w = _t16(w)
    return [w, w]


def stream_words(rng, n, thumb_bias, p_macro=0.08, valid_bias=0.0):
    """n stream entries: single words (random / bit-flipped / valid vocabulary) interleaved with macros"""
    out = []
    while len(out) < n:
        if rng.random() < p_macro:
            out += macro(rng, rng.random() < thumb_bias)
        elif rng.random() < valid_bias:
            th = rng.random() < thumb_bias
            w = vocab_words(rng, th)
            out.append(_t16(w) if th else w)
        else:
            out.append(stream_word(rng, thumb_bias))
    return out[:n]
