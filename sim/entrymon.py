"""EntryMonitor: intercepts the real exception-entry methods of one instance (instance attributes, nothing in /repo is
touched), snapshots the machine immediately before and after each entry and compares the entry with
models/exc_entry.  It also records which kind was dispatched at which tick, for controlled injections."""
from . import machine as M
from .models import exc_entry as EM

METHODS = {
    'take_undef_instr_exception': 'und', 'take_svc_exception': 'svc', 'take_smc_exception': 'smc',
    'take_data_abort_exception': 'dabt', 'take_physical_irq_exception': 'irq', 'take_physical_fiq_exception': 'fiq',
    'take_hyp_trap_exception': 'hyptrap',
}


class EntryMonitor:
    def __init__(self, board, ci=0, report=True, oracle='entry_model'):
        self.b = board
        self.ci = ci
        self.report = report
        self.oracle = oracle
        self.cfg = M.full_config(board.case['cores'][ci].get('config'))
        self.taken = []          # (tick, kind)
        self.listeners = []      # callables (kind, expectation, pre_state) -> None
        self.install(board.cores[ci].arm)

    def install(self, arm):
        r = arm.registers
        self.complete = True
        for name, kind in METHODS.items():
            real = getattr(r, name, None)
            if real is None:
                self.complete = False       # entry routine not found under this name: entries of this kind go unchecked
                continue
            setattr(r, name, self._wrap(arm, real, kind))

    def _wrap(self, arm, real, kind):
        mon = self

        def wrapper(*a, **k):
            if getattr(mon.b, 'twin_active', False):
                return real(*a, **k)          # (a detour step of the 'twin' fault: not observed)
            align = False
            stage2 = False
            if kind == 'dabt' and a:
                try:
                    align = bool(a[0].is_alignment_fault())
                    stage2 = bool(a[0].second_stage_abort())
                except Exception:
                    align = False
                if getattr(mon, 'stage_override', None) is not None:
                    stage2 = mon.stage_override          # (the scenario built the translation tables itself and knows which stage refuses the access)
            s = EM.pre_state(arm, mon.cfg, align, stage2)
            if kind == 'dabt' and stage2 and mon.report and getattr(mon.b, 'in_step', False):      # (raised by the emulator itself, not injected through the API)
                # the one thing known about the stage of a fault without modelling the translation: a SECOND-stage abort needs a second stage
                # (Virtualization Extensions, HCR.VM = 1, Non-secure, not Hyp mode)
                r_ = arm.registers
                if not (mon.cfg.get('have_virt_ext') and (r_.hcr.value & 1) and (r_.scr.value & 1) and (r_.cpsr.value & 0x1F) not in (0x16, 0x1a)):
                    mon.b.violate(mon.oracle, 'dabt', 'second_stage_abort_without_stage2', 'Data Abort flagged as a second-stage abort with HCR.VM=%d SCR.NS=%d mode %#x virt=%s' % (
                        r_.hcr.value & 1, r_.scr.value & 1, r_.cpsr.value & 0x1F, mon.cfg.get('have_virt_ext')))
            pre = M.light(arm)
            out = real(*a, **k)
            post = M.light(arm)
            mon.check(kind, s, pre, post)
            return out
        return wrapper

    def check(self, kind, s, pre, post):
        b = self.b
        self.taken.append((b.tick, kind))
        self.last_post = (b.tick, post)          # the state right after the entry routine: nothing else may happen in the same step
        self.last_post_serial = getattr(b, 'step_serial', None) if getattr(b, 'in_step', False) else None
        self.last_pre = pre                      # the state right before the entry routine (what the faulting instruction had done by then)
        if (s['cpsr'] >> 24) & 1 and not (s['cpsr'] >> 5) & 1:
            # entry from Jazelle state (only reachable in configurations that have the extension): its return-address offsets are
            # not modelled.  ThumbEE state (J=1, T=1) uses the Thumb offsets and is compared
            b.count('probe.entry-from-J-state-not-compared')
            return
        exp = EM.entry(kind, s)
        for f in self.listeners:
            f(kind, exp, s)
        route = {0x16: 'mon', 0x1a: 'hyp'}.get(exp['mode'], 'normal')
        b.count('exc.%s:%s->%s' % (kind, M.MODE_NAMES.get(s['cpsr'] & 0x1F, '?'), M.MODE_NAMES.get(exp['mode'], '?')))
        b.cover.add('entry|%s|%x|%x|%s|%d|%d%d' % (kind, s['cpsr'] & 0x1F, exp['mode'], route, (s['cpsr'] >> 5) & 1, s['sec'], s['virt']))
        for cls, detail in EM.compare(exp, pre, post, kind):
            if self.report:
                b.violate(self.oracle, kind, cls, '%s | pre cpsr=%#x pc=%#x scr=%#x hcr=%#x sec=%d virt=%d V=%d TE=%d EE=%d' % (
                    detail, s['cpsr'], s['pc'], s['scr'], s['hcr'], s['sec'], s['virt'], s['V'], s['TE'], s['EE']))
            else:
                b.count('probe.entry-mismatch')
            break

    def on_tick(self, b, rec):
        """an exception entry is the LAST thing its step does: the state at the end of the step is the state the entry routine left (an entry
        taken by a direct call from inside execute() - the Hyp traps of WFI/WFE/coprocessor accesses - returns into code that may still write)"""
        lp = getattr(self, 'last_post', None)
        if not self.report or lp is None or lp[0] != rec['tick'] or rec['nie'] or rec['exc'] or rec.get('post') is None or rec.get('core', self.ci) != self.ci:
            return
        if getattr(self, 'last_post_serial', None) is None or self.last_post_serial != rec.get('serial'):
            return                               # the entry was not taken inside this step (API-level injection between steps)
        if rec['post'] != lp[1]:
            kind = self.taken[-1][1] if self.taken else '?'
            regs = [M.RNAMES[i] for i, (x, y) in enumerate(zip(rec['post'][0], lp[1][0])) if x != y]
            flds = [i for i, (x, y) in enumerate(zip(rec['post'], lp[1])) if x != y]
            b.violate(self.oracle, kind, 'state_changed_after_entry', 'tick %d: after the %s entry the step went on and changed %s (fields %s: cpsr %#x -> %#x); pre cpsr=%#x pc=%#x' % (
                rec['tick'], kind, regs, flds, lp[1][1], rec['post'][1], rec['pre'][1], rec['pre_pc']))

    # reset is delivered as a board event
    def on_event(self, b, ev, core, pre, post):
        if ev['kind'] != 'reset' or core is not b.cores[self.ci] or core.dead:
            return
        s = EM.pre_state(core.arm, self.cfg)      # SCTLR as it is after the reset (see DESIGN: not compared with reset values)
        s['cpsr'] = pre[1]
        s['scr'] = pre[6]
        s['pc'] = pre[0][M.RNAMES.index('PC')]
        self.taken.append((b.tick, 'reset'))
        exp = EM.entry('reset', s)
        b.count('exc.reset:%s->svc' % M.MODE_NAMES.get(pre[1] & 0x1F, '?'))
        b.cover.add('entry|reset|%x|13|normal|%d|%d%d' % (pre[1] & 0x1F, (pre[1] >> 5) & 1, s['sec'], s['virt']))
        for cls, detail in EM.compare(exp, pre, post, 'reset'):
            if self.report:
                b.violate(self.oracle, 'reset', cls, detail + ' | pre cpsr=%#x V=%d TE=%d EE=%d' % (pre[1], s['V'], s['TE'], s['EE']))
            break
