"""Determinism self-test: run a sub-sample of each check's plan several times in fresh interpreters — different
PYTHONHASHSEED values, 1 and 16 workers — and require identical log digests and identical evidence counters.

  /venv/bin/python -B selftest/determinism.py [C18 C20 ...] [--runs 200]"""
import json, os, subprocess, sys, tempfile, shutil
HERE = os.path.dirname(os.path.dirname(os.path.abspath(__file__)))

def one(prop, runs, hashseed, workers, seed):
    d = tempfile.mkdtemp(prefix='armverif-det-')
    try:
        e = dict(os.environ, PYTHONHASHSEED=str(hashseed), VERIF_KEEP_HASHSEED='1', VERIF_MAX_RUNS=str(runs), VERIF_EVIDENCE_DIR=d,
                 VERIF_WORKERS=str(workers), VERIF_SEED=str(seed), VERIF_BUDGET_S='3000')
        p = subprocess.run([sys.executable, '-B', os.path.join(HERE, 'run_check.py'), '--property', prop, '--tier', 'quick'],
                           cwd=HERE, env=e, capture_output=True, text=True, timeout=3000)
        ev = json.load(open(os.path.join(d, prop + '.json')))
        c = ev['coverage']
        return p.returncode, c['log_digest'], c['evaluations'], c['distinct_nontrivial'], c['ticks_simulated'], json.dumps(c['faults_fired'], sort_keys=True)
    finally:
        shutil.rmtree(d, ignore_errors=True)

def main():
    args = [a for a in sys.argv[1:] if a.startswith('C')]
    runs = int(sys.argv[sys.argv.index('--runs') + 1]) if '--runs' in sys.argv else 200
    man = json.load(open(os.path.join(HERE, 'MANIFEST.json')))
    props = args or [c['property_id'] for c in man['checks']]
    bad = 0
    for prop in props:
        for seed in (1, 7):
            res = [one(prop, runs, hs, w, seed) for hs, w in ((0, 16), (12345, 1), (999, 5))]
            ok = all(r == res[0] for r in res)
            sys.stdout.write('%s seed=%d %s %s\n' % (prop, seed, 'DETERMINISTIC' if ok else 'DIVERGES', res[0][1:5] if ok else res))
            bad += not ok
    return 1 if bad else 0

if __name__ == '__main__':
    sys.exit(main())
