"""Cross-check every encoder of sim/asm.py against the real decoder: the word must decode to the
expected opcode class (by name prefix).  Run: /venv/bin/python -B selftest/asm_check.py"""
import os, sys
sys.path.insert(0, os.path.dirname(os.path.dirname(os.path.abspath(__file__))))
from sim import env
env.setup()
from sim import machine as M
from sim.asm import A, T, reglist

def cls(word, thumb, arch=7):
    arm = M.new_arm({'config': {'arch_version': arch, 'have_virt_ext': True, 'memory_system_architecture': 'VMSA'}, 'devices': [], 'reset': False})
    arm.registers.cpsr.value = 0x13 | (0x20 if thumb else 0)
    arm.opcode = word
    arm.opcode_len = 32 if (not thumb or word > 0xffff) else 16
    try:
        c = arm.decode_instruction(word)
        if c is None: return 'None', None
        o = c.from_bitarray(word, arm)
    except Exception as e:
        return 'EXC:%r' % e, None
    return c.__name__, o

ARM = [
 (A.mov_imm(1, 5), 'MovImmediateA1'), (A.dp_imm('add', 1, 2, 3), 'AddImmediateArmA1'), (A.dp_imm('sub', 1, 2, 3, s=1), 'SubImmediateArmA1'),
 (A.dp_imm('cmp', 0, 2, 3, s=1), 'CmpImmediateA1'), (A.mov_reg(1, 2), 'MovRegisterArmA1'), (A.dp_reg('add', 1, 2, 3), 'AddRegisterArmA1'),
 (A.movw(1, 0x1234), 'MovImmediateA2'), (A.movt(1, 0x1234), 'MovtA1'),
 (A.ldr(1, 2, 4), 'LdrImmediateArmA1'), (A.str_(1, 2, 4), 'StrImmediateArmA1'), (A.ldst(1, 1, 2, 0, byte=1), 'LdrbImmediateArmA1'),
 (A.ldst(0, 1, 2, 0, byte=1), 'StrbImmediateArmA1'), (A.ldsth('ldrh', 1, 2, 2), 'LdrhImmediateArmA1'), (A.ldsth('strh', 1, 2, 2), 'StrhImmediateArmA1'),
 (A.ldsth('ldrd', 2, 4, 8), 'LdrdImmediateA1'), (A.ldsth('strd', 2, 4, 8), 'StrdImmediateA1'),
 (A.ldstm(1, 4, 0x0e), 'LdmArmA1'), (A.ldstm(0, 4, 0x0e), 'StmA1'), (A.ldstm(1, 4, 0x0e, p=1, u=1), 'LdmibA1'), (A.ldstm(0, 4, 0xe, p=1, u=1), 'StmibA1'),
 (A.ldstm(1, 4, 0x0e, p=0, u=0), 'LdmdaA1'), (A.ldstm(0, 4, 0xe, p=0, u=0), 'StmdaA1'), (A.ldstm(1, 4, 0x0e, p=1, u=0), 'LdmdbA1'), (A.ldstm(0, 4, 0xe, p=1, u=0), 'StmdbA1'),
 (A.push(0x100f), 'PushA1'), (A.pop(0x100f), 'PopArmA1'), (A.b(0), 'BA1'), (A.b(16, link=1), 'BlBlxImmediateA1'), (A.bx(14), 'BxA1'),
 (A.svc(5), 'SvcA1'), (A.smc(1), 'SmcA1'), (A.udf(3), 'UdfA1'), (A.hint(0), 'NopA1'), (A.hint(1), 'YieldA1'), (A.hint(2), 'WfeA1'), (A.hint(3), 'WfiA1'), (A.hint(4), 'SevA1'),
 (A.mrs(1), 'MrsApplicationA1'), (A.mrs(1, 1), 'MrsSystemA1'), (A.msr_reg(1, 9), 'MsrRegisterSystemA1'), (A.msr_reg(1, 8), 'MsrRegisterApplicationA1'), (A.msr_reg(1, 0xf, 1), 'MsrRegisterSystemA1'),
 (A.msr_imm(0x1f, 1), 'MsrImmediateSystemA1'), (A.msr_imm(0xf0, 8, rot=4), 'MsrImmediateApplicationA1'),
 (A.cps(2, 7), 'CpsArmA1'), (A.cps(0, 0, 0x13), 'CpsArmA1'), (A.setend(1), 'SetendA1'), (A.srs(0x13), 'SrsArmA1'), (A.rfe(13), 'RfeA1'),
 (A.subs_pc_lr(4), 'SubsPcLrArmA1'), (A.movs_pc_lr(), 'SubsPcLrArmA2'), 
 (A.ldrt(1, 2, 4), 'LdrtA1'), (A.strt(1, 2, 4), 'StrtA1'), (A.ldrbt(1, 2), 'LdrbtA1'), (A.strbt(1, 2), 'StrbtA1'),
 (A.mcr(15, 0, 1, 1, 0), 'McrMcr2A1'), (A.mrc(15, 0, 1, 1, 0), 'MrcMrc2A1'), (A.cdp(5, 0, 1, 1, 0), 'CdpCdp2A1'), (A.ldc(5, 1, 2, 4), 'LdcLdc2ImmediateA1'),
 (A.ldc(5, 1, 2, 4, load=0), 'StcStc2A1'), (A.mcrr(5, 0, 1, 2, 3), 'McrrMcrr2A1'), (A.mcrr(5, 0, 1, 2, 3, load=1), 'MrrcMrrc2A1'),
 (A.ldstm(1, 13, 0x900f, w=1, s=1), 'LdmExceptionReturnA1'), (A.ldstm(1, 13, 0x100f, s=1), 'LdmUserRegistersA1'), (A.ldstm(0, 13, 0x100f, s=1), 'StmUserRegistersA1'),
]
THUMB = [
 (T.mov_imm(1, 5), 'MovImmediateT1'), (T.cmp_imm(1, 5), 'CmpImmediateT1'), (T.add_imm8(1, 5), 'AddImmediateThumbT2'), (T.sub_imm8(1, 5), 'SubImmediateThumbT2'),
 (T.add_imm3(1, 2, 3), 'AddImmediateThumbT1'), (T.sub_imm3(1, 2, 3), 'SubImmediateThumbT1'), (T.add_reg(1, 2, 3), 'AddRegisterThumbT1'), (T.sub_reg(1, 2, 3), 'SubRegisterT1'),
 (T.shift_imm(0, 1, 2, 3), 'LslImmediateT1'), (T.shift_imm(1, 1, 2, 3), 'LsrImmediateT1'), (T.shift_imm(2, 1, 2, 3), 'AsrImmediateT1'),
 (T.dp(0, 1, 2), 'AndRegisterT1'), (T.dp(1, 1, 2), 'EorRegisterT1'), (T.dp(2, 1, 2), 'LslRegisterT1'), (T.dp(3, 1, 2), 'LsrRegisterT1'), (T.dp(4, 1, 2), 'AsrRegisterT1'),
 (T.dp(5, 1, 2), 'AdcRegisterT1'), (T.dp(6, 1, 2), 'SbcRegisterT1'), (T.dp(7, 1, 2), 'RorRegisterT1'), (T.dp(8, 1, 2), 'TstRegisterT1'), (T.dp(9, 1, 2), 'RsbImmediateT1'),
 (T.dp(10, 1, 2), 'CmpRegisterT1'), (T.dp(11, 1, 2), 'CmnRegisterT1'), (T.dp(12, 1, 2), 'OrrRegisterT1'), (T.dp(13, 1, 2), 'MulT1'), (T.dp(14, 1, 2), 'BicRegisterT1'), (T.dp(15, 1, 2), 'MvnRegisterT1'),
 (T.mov_reg(9, 2), 'MovRegisterThumbT1'), (T.ldst_imm('ldr', 1, 2, 1), 'LdrImmediateThumbT1'), (T.ldst_imm('str', 1, 2, 1), 'StrImmediateThumbT1'),
 (T.ldst_imm('ldrb', 1, 2, 1), 'LdrbImmediateThumbT1'), (T.ldst_imm('strb', 1, 2, 1), 'StrbImmediateThumbT1'), (T.ldst_imm('ldrh', 1, 2, 1), 'LdrhImmediateThumbT1'), (T.ldst_imm('strh', 1, 2, 1), 'StrhImmediateThumbT1'),
 (T.ldr_sp(1, 2), 'LdrImmediateThumbT2'), (T.str_sp(1, 2), 'StrImmediateThumbT2'), (T.push(0xf), 'PushT1'), (T.pop(0xf), 'PopThumbT1'), (T.stmia(1, 0xc), 'StmT1'), (T.ldmia(1, 0xc), 'LdmThumbT1'),
 (T.b(0), 'BT2'), (T.bcond(1, 8), 'BT1'), (T.cbz(1, 8), 'CbzT1'), (T.bx(14), 'BxT1'), (T.svc(3), 'SvcT1'), (T.udf(3), 'UdfT1'), (T.it(0, 8), 'ItT1'),
 (T.hint(0), 'NopT1'), (T.hint(1), 'YieldT1'), (T.hint(2), 'WfeT1'), (T.hint(3), 'WfiT1'), (T.hint(4), 'SevT1'), (T.cps(1, 7), 'CpsThumbT1'), (T.setend(1), 'SetendT1'),
 (T.mov_w(1, 5), 'MovImmediateT2'), (T.add_w(1, 2, 5), 'AddImmediateThumbT3'), (T.movw(1, 0xabcd), 'MovImmediateT3'), (T.movt(1, 0xabcd), 'MovtT1'),
 (T.ldr_w(1, 2, 8), 'LdrImmediateThumbT3'), (T.str_w(1, 2, 8), 'StrImmediateThumbT3'), (T.ldst_t4(1, 1, 2, 4, w=1), 'LdrImmediateThumbT4'), (T.ldst_t4(0, 1, 2, 4, w=1), 'StrImmediateThumbT4'),
 (T.ldstd(1, 2, 3, 4, 2), 'LdrdImmediateT1'), (T.ldstd(0, 2, 3, 4, 2), 'StrdImmediateT1'), (T.ldstm_w(1, 4, 0xe), 'LdmThumbT2'), (T.ldstm_w(0, 4, 0xe), 'StmT2'),
 (T.ldstm_w(1, 4, 0xe, db=1), 'LdmdbT1'), (T.ldstm_w(0, 4, 0xe, db=1), 'StmdbT1'), (T.subs_pc_lr(4), 'SubsPcLrThumbT1'), (T.srs(0x13), 'SrsThumbT2'), (T.srs(0x13, db=1), 'SrsThumbT1'),
 (T.rfe(13), 'RfeT2'), (T.rfe(13, db=1), 'RfeT1'), (T.mrs(1), 'MrsApplicationT1'), (T.mrs(1, 1), 'MrsSystemT1'), (T.msr(1, 9), 'MsrRegisterSystemT1'), (T.msr(1, 8), 'MsrRegisterApplicationT1'), (T.cps_w(2, 7), 'CpsThumbT2'),
 (T.smc(1), 'SmcT1'), (T.udf_w(1), 'UdfT2'), (T.ldrt(1, 2, 4), 'LdrtT1'), (T.strt(1, 2, 4), 'StrtT1'), (T.mcr(15, 0, 1, 1, 0), 'McrMcr2T1'), (T.mrc(15, 0, 1, 1, 0), 'MrcMrc2T1'), (T.NOP_W, 'NopT2'),
]
bad = 0
for th, tab in ((False, ARM), (True, THUMB)):
    for w, want in tab:
        got, o = cls(w, th)
        if got != want or o is None:
            bad += 1
            env.out('%s %08x: want %s got %s (%s)' % ('T' if th else 'A', w, want, got, o))
env.out('asm_check: %d encoders, %d mismatches' % (len(ARM) + len(THUMB), bad))
sys.exit(1 if bad else 0)
