"""No-false-alarm self-test: apply behaviour-preserving edits to a scratch worktree of /repo and require every check to
stay green (exit 0) there.

  /venv/bin/python -B selftest/refactors.py [--max-runs N]"""
import json, os, re, shutil, subprocess, sys, time
HERE = os.path.dirname(os.path.dirname(os.path.abspath(__file__)))
REPO = '/repo'


def sh(cmd, **kw):
    return subprocess.run(cmd, shell=True, capture_output=True, text=True, **kw)


def refactor_prints_to_pass(wt):
    n = 0
    for root, _, files in os.walk(os.path.join(wt, 'armulator')):
        for f in files:
            if f.endswith('.py'):
                p = os.path.join(root, f)
                s = open(p).read()
                s2 = s.replace("print('unpredictable')", "pass  # unpredictable")
                if s2 != s:
                    open(p, 'w').write(s2)
                    n += 1
    return '%d files: print(\'unpredictable\') -> pass' % n


def refactor_reorder_entry_statements(wt):
    p = os.path.join(wt, 'armulator/armv6/registers.py')
    s = open(p).read()
    # independent statements swapped in every entry routine; local renamed; helper inlined
    s2 = s.replace("            self.cpsr.it = 0b00000000\n            self.cpsr.j = 0\n            self.cpsr.t = self.sctlr.te\n            self.cpsr.e = self.sctlr.ee\n",
                   "            self.cpsr.e = self.sctlr.ee\n            self.cpsr.t = self.sctlr.te\n            self.cpsr.j = 0\n            self.cpsr.it = 0b00000000\n")
    s2 = s2.replace('new_spsr_value', 'saved_psr').replace('new_lr_value', 'link_value')
    s2 = s2.replace("        self.cpsr.j = 0\n        self.cpsr.t = self.hsctlr.te\n        self.cpsr.e = self.hsctlr.ee\n", "        self.cpsr.e = self.hsctlr.ee\n        self.cpsr.t = self.hsctlr.te\n        self.cpsr.j = 0\n")
    open(p, 'w').write(s2)
    return 'registers.py: %d statement groups reordered, locals renamed' % (s.count("self.cpsr.it = 0b00000000\n            self.cpsr.j = 0"))


def refactor_rename_opcode_classes(wt):
    # rename two abstract opcode classes and their modules' class names (imports updated)
    n = 0
    for old, new in (('SubsPcLrArm', 'ExceptionReturnAluArm'), ('LdmExceptionReturn', 'LoadMultipleExcReturn'), ('MrsApplication', 'MoveFromApsr')):
        for root, _, files in os.walk(os.path.join(wt, 'armulator')):
            for f in files:
                if f.endswith('.py'):
                    p = os.path.join(root, f)
                    s = open(p).read()
                    s2 = re.sub(r'\b%s(?=(A1|A2|T1|T2)?\b)' % old, new, s)
                    if s2 != s:
                        open(p, 'w').write(s2)
                        n += 1
    return '%d files: three opcode classes renamed' % n


REFACTORS = [refactor_prints_to_pass, refactor_reorder_entry_statements, refactor_rename_opcode_classes]


def main():
    max_runs = sys.argv[sys.argv.index('--max-runs') + 1] if '--max-runs' in sys.argv else None
    man = json.load(open(os.path.join(HERE, 'MANIFEST.json')))
    props = [c['property_id'] for c in man['checks']]
    out = []
    for rf in REFACTORS:
        wt = '/tmp/armverif-refactor'
        sh('git -C %s worktree remove --force %s' % (REPO, wt))
        shutil.rmtree(wt, ignore_errors=True)
        sh('git -C %s worktree add --detach %s HEAD' % (REPO, wt))
        try:
            what = rf(wt)
            t = sh('cd %s && /venv/bin/python -m pytest -q -p no:cacheprovider -n 8 2>&1 | tail -1' % wt)
            rec = {'refactor': rf.__name__, 'what': what, 'tests': t.stdout.strip(), 'checks': {}, 'time': time.strftime('%Y-%m-%d %H:%M:%S')}
            for p in props:
                env = dict(os.environ, VERIF_REPO=wt, VERIF_EVIDENCE_DIR='/tmp/armverif-refactor-ev')
                if max_runs:
                    env['VERIF_MAX_RUNS'] = max_runs
                c = subprocess.run([sys.executable, '-B', os.path.join(HERE, 'run_check.py'), '--property', p, '--tier', 'quick'], cwd=HERE, env=env, capture_output=True, text=True)
                rec['checks'][p] = {'exit': c.returncode, 'line': [l for l in c.stdout.splitlines() if l.startswith('VIOLATION') or l.startswith('  oracle')][:2], 'stderr': c.stderr[-300:] if c.returncode == 2 else ''}
                for l in c.stdout.splitlines():
                    if l.startswith('VIOLATION') and 'replay=' in l:
                        rp = os.path.join(HERE, l.split('replay=')[1].strip())
                        if os.path.exists(rp):
                            os.remove(rp)
            out.append(rec)
            sys.stdout.write(json.dumps(rec) + '\n')
            sys.stdout.flush()
        finally:
            sh('git -C %s worktree remove --force %s' % (REPO, wt))
            shutil.rmtree(wt, ignore_errors=True)
            shutil.rmtree('/tmp/armverif-refactor-ev', ignore_errors=True)
    json.dump(out, open(os.path.join(HERE, 'selftest', 'refactor_results.json'), 'w'), indent=1)
    bad = [(r['refactor'], p) for r in out for p, v in r['checks'].items() if v['exit'] != 0]
    sys.stdout.write('alarms on behaviour-preserving edits: %s\n' % bad)
    return 1 if bad else 0


if __name__ == '__main__':
    sys.exit(main())
