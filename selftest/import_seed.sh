#!/bin/bash
# import_seed.sh Cxx : copy /tmp/seed_out/Cxx/{change,demo,meta}<i> into /verif/seeded/Cxx-<i>/
p=$1
for i in 1 2 3; do
  if [ -f /tmp/seed_out/$p/change$i.diff ]; then
    d=/verif/seeded/$p-$i; mkdir -p $d
    cp /tmp/seed_out/$p/change$i.diff $d/patch.diff
    cp /tmp/seed_out/$p/demo$i.py $d/demo.py
    cp /tmp/seed_out/$p/meta$i.json $d/meta.json
  fi
done
ls /verif/seeded
