"""Developer tool: re-run a replay file (or planned run) and print the full traceback of host errors."""
import os, sys, json, traceback, random
sys.path.insert(0, os.path.dirname(os.path.dirname(os.path.abspath(__file__))))
from sim import env
env.setup()
from sim import runner, board
orig = board.exc_site
def site(e):
    sys.stdout.write(''.join(traceback.format_exception(e)))
    return orig(e)
board.exc_site = site
if sys.argv[1].endswith('.json'):
    rp = json.load(open(sys.argv[1])); scen = runner._scenario(rp['module']); case = rp['case']
else:
    mod, tier, idx = sys.argv[1], sys.argv[2], int(sys.argv[3]); scen = runner._scenario(mod)
    seed = int(os.environ.get('VERIF_SEED', '1'))
    rng = random.Random(runner.derive_seed(seed, scen.PROPERTY, tier, idx)); case = scen.gen(scen.plan(tier, seed)[idx], rng, tier)
res = scen.run(case)
for v in res['violations']: env.out(json.dumps(v))
env.out('ticks %d' % res['ticks'])
env.out(json.dumps({k: v for k, v in res['stats'].items() if k.startswith('note') or k.startswith('probe')}))
