"""Evaluate the independently written breaking changes kept under /verif/seeded/<id>/ (patch.diff, demo.py, meta.json).

For each: a scratch worktree of /repo's HEAD is created under /tmp, the demo must pass there; the patch is applied, the
repository's own test-suite must pass, the demo must fail, and the quick check of the property is run against the
worktree (VERIF_REPO) and must report a VIOLATION.  The worktree is removed afterwards.  Results are written to
seeded/results.json.

  /venv/bin/python -B selftest/seeded.py [id ...] [--no-tests] [--checks C12,C11]"""
import json
import os
import shutil
import subprocess
import sys
import time

HERE = os.path.dirname(os.path.dirname(os.path.abspath(__file__)))
REPO = '/repo'


def sh(cmd, **kw):
    return subprocess.run(cmd, shell=True, capture_output=True, text=True, **kw)


def evaluate(sid, run_tests=True, extra_checks=None):
    d = os.path.join(HERE, 'seeded', sid)
    meta = json.load(open(os.path.join(d, 'meta.json')))
    wt = '/tmp/armverif-seed-%s' % sid
    sh('git -C %s worktree remove --force %s' % (REPO, wt))
    shutil.rmtree(wt, ignore_errors=True)
    res = {'id': sid, 'property': meta['property'], 'time': time.strftime('%Y-%m-%d %H:%M:%S'), 'repo_head': sh('git -C %s rev-parse --short HEAD' % REPO).stdout.strip()}
    r = sh('git -C %s worktree add --detach %s HEAD' % (REPO, wt))
    try:
        if r.returncode:
            res['error'] = r.stderr[-300:]
            return res
        shutil.copy(os.path.join(d, 'demo.py'), os.path.join(wt, '_demo.py'))
        c = sh('cd %s && /venv/bin/python _demo.py' % wt, timeout=600)
        res['demo_clean_exit'] = c.returncode
        a = sh('git -C %s apply %s' % (wt, os.path.join(d, 'patch.diff')))
        if a.returncode:
            # /repo has moved on since the change was written (fix: commits): fall back to a 3-way merge of the patch
            a = sh('git -C %s apply --3way %s' % (wt, os.path.join(d, 'patch.diff')))
            res['applied_with_3way'] = a.returncode == 0
        rb = os.path.join(d, 'patch_rebased.diff')
        if a.returncode and os.path.exists(rb):
            # the same change re-written by hand for the current /repo HEAD (a fix: commit touched the same lines); the original stays as patch.diff
            sh('git -C %s reset --hard -q HEAD' % wt)
            a = sh('git -C %s apply %s' % (wt, rb))
            res['applied_rebased'] = a.returncode == 0
        if a.returncode:
            res['error'] = 'patch does not apply: ' + a.stderr[-300:]
            return res
        c = sh('cd %s && /venv/bin/python _demo.py' % wt, timeout=600)
        res['demo_patched_exit'] = c.returncode
        res['demo_message'] = (c.stdout + c.stderr).strip()[-300:]
        if run_tests:
            t = sh('cd %s && /venv/bin/python -m pytest -q -p no:cacheprovider -n 8 2>&1 | tail -1' % wt)
            res['tests'] = t.stdout.strip()
        res['checks'] = {}
        for chk in [meta['property']] + list(extra_checks or []):
            env = dict(os.environ, VERIF_REPO=wt, VERIF_EVIDENCE_DIR='/tmp/armverif-seed-evidence')
            t0 = time.time()
            c = subprocess.run([sys.executable, '-B', os.path.join(HERE, 'run_check.py'), '--property', chk, '--tier', 'quick'],
                               cwd=HERE, env=env, capture_output=True, text=True)
            lines = [l for l in c.stdout.splitlines() if l.startswith('  oracle=')]
            res['checks'][chk] = {'exit': c.returncode, 'caught': c.returncode == 1, 'wall_s': round(time.time() - t0, 1),
                                  'first': lines[0][:400] if lines else '', 'stderr': c.stderr[-400:] if c.returncode == 2 else ''}
            for l in c.stdout.splitlines():
                if l.startswith('VIOLATION') and 'replay=' in l:
                    rp = os.path.join(HERE, l.split('replay=')[1].strip())
                    if os.path.exists(rp):
                        os.remove(rp)
        return res
    finally:
        sh('git -C %s worktree remove --force %s' % (REPO, wt))
        shutil.rmtree(wt, ignore_errors=True)
        shutil.rmtree('/tmp/armverif-seed-evidence', ignore_errors=True)


def main():
    args = [a for a in sys.argv[1:] if not a.startswith('--')]
    extra = []
    if '--checks' in sys.argv:
        extra = sys.argv[sys.argv.index('--checks') + 1].split(',')
        args = [a for a in args if a != sys.argv[sys.argv.index('--checks') + 1]]
    ids = args or sorted(x for x in os.listdir(os.path.join(HERE, 'seeded')) if os.path.isdir(os.path.join(HERE, 'seeded', x)))
    path = os.path.join(HERE, 'seeded', 'results.json')
    old = json.load(open(path)) if os.path.exists(path) else []
    out = []
    for sid in ids:
        r = evaluate(sid, '--no-tests' not in sys.argv, extra)
        out.append(r)
        sys.stdout.write(json.dumps(r) + '\n')
        sys.stdout.flush()
    old = [o for o in old if o['id'] not in {r['id'] for r in out}] + out
    json.dump(sorted(old, key=lambda r: r['id']), open(path, 'w'), indent=1)
    missed = [r['id'] for r in out if not r.get('checks', {}).get(r['property'], {}).get('caught')]
    sys.stdout.write('missed by the property\'s own check: %s\n' % missed)
    return 0


if __name__ == '__main__':
    sys.exit(main())
