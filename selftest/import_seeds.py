"""Developer tool: copy the deliverables of a sub-agent round (/tmp/<prefix>-<prop>/_out/change<k>/{patch.diff,demo.py,notes.json}) into
seeded/<prop>-<n>/ (patch.diff, demo.py, meta.json) with the next free number.   /venv/bin/python -B selftest/import_seeds.py rt10 C08 C19"""
import glob, json, os, shutil, sys
HERE = os.path.dirname(os.path.dirname(os.path.abspath(__file__)))
prefix, props = sys.argv[1], sys.argv[2:]
for p in props:
    for d in sorted(glob.glob('/tmp/%s-%s/_out/change*' % (prefix, p))):
        nums = [int(x.rsplit('-', 1)[1]) for x in os.listdir(os.path.join(HERE, 'seeded')) if x.startswith(p + '-')]
        sid = '%s-%d' % (p, max(nums) + 1)
        dst = os.path.join(HERE, 'seeded', sid)
        os.makedirs(dst)
        shutil.copy(os.path.join(d, 'patch.diff'), dst)
        shutil.copy(os.path.join(d, 'demo.py'), dst)
        notes = json.load(open(os.path.join(d, 'notes.json')))
        meta = {'property': p, 'round': prefix}
        meta.update(notes)
        json.dump(meta, open(os.path.join(dst, 'meta.json'), 'w'), indent=1)
        print(sid, '<-', d)
