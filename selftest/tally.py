"""Developer tool: run N planned runs of a scenario in parallel and tally violation signatures (no minimisation)."""
import os, sys, collections, random
sys.path.insert(0, os.path.dirname(os.path.dirname(os.path.abspath(__file__))))
from sim import env
env.setup()
from sim import runner
import concurrent.futures as cf, multiprocessing

def work(args):
    mod, tier, seed, idxs = args
    scen = runner._scenario(mod)
    plan = scen.plan(tier, seed)
    c = collections.Counter(); ex = {}
    for i in idxs:
        rng = random.Random(runner.derive_seed(seed, scen.PROPERTY, tier, i))
        case = scen.gen(plan[i], rng, tier)
        res = scen.run(case)
        for v in res['violations']:
            k = (v['oracle'], v['site'], v['cls'])
            c[k] += 1
            ex.setdefault(k, (i, v.get('detail', '')[:300]))
    return c, ex

if __name__ == '__main__':
    mod = sys.argv[1]; tier = sys.argv[2]; n = int(sys.argv[3]); seed = int(os.environ.get('VERIF_SEED', '1'))
    start = int(sys.argv[4]) if len(sys.argv) > 4 else 0
    scen = runner._scenario(mod)
    total = len(scen.plan(tier, seed))
    idxs = list(range(start, min(total, start + n)))
    chunks = [(mod, tier, seed, idxs[i::32]) for i in range(32)]
    C = collections.Counter(); EX = {}
    with cf.ProcessPoolExecutor(16, mp_context=multiprocessing.get_context('fork')) as ex:
        for c, e in ex.map(work, chunks):
            C.update(c)
            for k, v in e.items():
                if k not in EX or v[0] < EX[k][0]: EX[k] = v
    for k, v in C.most_common():
        env.out('%6d %s  e.g. run %d: %s' % (v, k, EX[k][0], EX[k][1]))
    env.out('total sigs %d' % len(C))
