"""Sensitivity self-test: apply small behaviour-breaking edits ("mutants") to a scratch worktree of /repo (under /tmp,
removed afterwards), confirm the repository's own test-suite still passes there, and require the named checks to
report a VIOLATION (exit 1) when pointed at the worktree with VERIF_REPO.

  /venv/bin/python -B selftest/sensitivity.py [name ...] [--skip-tests] [--max-runs N]

Results are appended to selftest/sensitivity_results.json."""
import json
import os
import shutil
import subprocess
import sys
import time

HERE = os.path.dirname(os.path.dirname(os.path.abspath(__file__)))
REPO = '/repo'
R = 'armulator/armv6/registers.py'
V = 'armulator/armv6/arm_v6.py'
OPS = 'armulator/armv6/opcodes/abstract_opcodes/'

# name: (file, old, new, [checks expected to catch it])
MUTANTS = {
    'irq_keeps_it': (R, """            if not have_security_ext() or have_virt_ext() or not self.scr.ns or self.scr.aw:
                self.cpsr.a = 1
            self.cpsr.it = 0b00000000
            self.cpsr.j = 0
            self.cpsr.t = self.sctlr.te
            self.cpsr.e = self.sctlr.ee
            if self.sctlr.ve:
                self.branch_to(configurations.impdef_irq_vector)""",
                     """            if not have_security_ext() or have_virt_ext() or not self.scr.ns or self.scr.aw:
                self.cpsr.a = 1
            self.cpsr.j = 0
            self.cpsr.t = self.sctlr.te
            self.cpsr.e = self.sctlr.ee
            if self.sctlr.ve:
                self.branch_to(configurations.impdef_irq_vector)""", ['C11', 'C08']),
    'dabt_lr_off_by_4': (R, "        new_lr_value = bits_ops.add(self.get_pc(), 4, 32) if self.cpsr.t else self.get_pc()\n        new_spsr_value = self.cpsr.value\n        vect_offset = 16",
                         "        new_lr_value = self.get_pc() if self.cpsr.t else self.get_pc()\n        new_spsr_value = self.cpsr.value\n        vect_offset = 16", ['C11', 'C14']),
    'mon_keeps_ns_on_irq': (R, """        if route_to_monitor:
            if self.cpsr.m == 0b10110:
                self.scr.ns = 0
            self.enter_monitor_mode(new_spsr_value, new_lr_value, vect_offset)
        elif route_to_hyp:
            self.hsr.value = 0x00000000  # unknown
            preferred_exceptn_return = bits_ops.sub(new_lr_value, 4, 32)
            self.enter_hyp_mode(new_spsr_value, preferred_exceptn_return, vect_offset)
        else:
            if self.cpsr.m == 0b10110:
                self.scr.ns = 0
            self.cpsr.m = 0b10010""", """        if route_to_monitor:
            if self.cpsr.m == 0b10110:
                self.scr.ns = 0
            self.enter_monitor_mode(new_spsr_value, new_lr_value, vect_offset)
        elif route_to_hyp:
            self.hsr.value = 0x00000000  # unknown
            preferred_exceptn_return = bits_ops.sub(new_lr_value, 4, 32)
            self.enter_hyp_mode(new_spsr_value, preferred_exceptn_return, vect_offset)
        else:
            self.cpsr.m = 0b10010""", ['C11']),
    'svc_spsr_without_itadvance': (R, "    def take_svc_exception(self):\n        self.it_advance()\n", "    def take_svc_exception(self):\n", ['C11', 'C08']),
    'high_vectors_ignored_for_und': (R, """            self.cpsr.m = 0b11011
            self.set_spsr(new_spsr_value)
            self.set(14, new_lr_value)
            self.cpsr.i = 1
            self.cpsr.it = 0b00000000
            self.cpsr.j = 0
            self.cpsr.t = self.sctlr.te
            self.cpsr.e = self.sctlr.ee
            self.branch_to(bits_ops.add(self.exc_vector_base(), vect_offset, 32))""", """            self.cpsr.m = 0b11011
            self.set_spsr(new_spsr_value)
            self.set(14, new_lr_value)
            self.cpsr.i = 1
            self.cpsr.it = 0b00000000
            self.cpsr.j = 0
            self.cpsr.t = self.sctlr.te
            self.cpsr.e = self.sctlr.ee
            self.branch_to(bits_ops.add(self.vbar.value if have_security_ext() else 0, vect_offset, 32))""", ['C11']),
    'fiq_sets_f_always': (R, """            if not have_security_ext() or have_virt_ext() or not self.scr.ns or self.scr.fw:
                self.cpsr.f = 1""", """            self.cpsr.f = 1""", ['C11']),
    'config_loaded_once': ('armulator/armv6/configurations.py', "    def load(self, path):\n        with open(path) as f:",
                           "    def load(self, path):\n        if self.configs:\n            return\n        with open(path) as f:", ['C20']),
    'decode_cache_by_word': (V, "    def decode_instruction(self, instr):\n        return op_decode_instruction(instr, self)",
                             "    _dcache = {}\n\n    def decode_instruction(self, instr):\n        if instr not in ArmV6._dcache:\n            ArmV6._dcache[instr] = op_decode_instruction(instr, self)\n        return ArmV6._dcache[instr]", ['C20']),
    'bank_swap_abt_und': (R, "        elif mode == 0b10111:\n            return abt\n        elif mode == 0b11010:\n            return hyp\n        elif mode == 0b11011:\n            return und",
                          "        elif mode == 0b10111:\n            return und\n        elif mode == 0b11010:\n            return hyp\n        elif mode == 0b11011:\n            return abt", ['C10']),
    'fiq_bank_lost_r8_r12': (R, "        return self.r_bank_select(mode, usr, fiq, usr, usr, usr, usr, usr, usr)", "        return self.r_bank_select(mode, usr, usr, usr, usr, usr, usr, usr, usr)", ['C10']),
    'hyp_has_own_lr': (R, "                                      RName.LRund, RName.LRmon, RName.LRusr)", "                                      RName.LRund, RName.LRmon, RName.LRsvc)", ['C10']),
    'spsr_mon_aliases_svc': (R, "            elif self.cpsr.m == 0b10110:\n                self.spsr_mon = value", "            elif self.cpsr.m == 0b10110:\n                self.spsr_svc = value", ['C10', 'C11']),
    'msr_i_bit_unprivileged': (R, "        if bit_at(bytemask, 0):\n            if privileged:\n                self.cpsr.value = set_bit_at(self.cpsr.value, 7, bit_at(value, 7))",
                               "        if bit_at(bytemask, 0):\n            if True:\n                self.cpsr.value = set_bit_at(self.cpsr.value, 7, bit_at(value, 7))", ['C19', 'C12']),
    'srs_allowed_in_user': (OPS + 'srs_arm.py', "            elif processor.registers.current_mode_is_user_or_system():\n                print('unpredictable')\n            elif self.mode == 0b11010:",
                            "            elif self.mode == 0b11010:", ['C19']),
    'ldrt_checks_as_privileged': (V, "    def mem_u_unpriv_get(self, address, size):\n        return self.mem_u_with_priv_get(address, size, False)",
                                  "    def mem_u_unpriv_get(self, address, size):\n        return self.mem_u_with_priv_get(address, size, self.registers.current_mode_is_not_user())", ['C19']),
    'cps_mode_change_in_user': (OPS + 'cps_arm.py', "        if processor.registers.current_mode_is_not_user():\n            cpsr_val = processor.registers.cpsr.value",
                                "        if True:\n            cpsr_val = processor.registers.cpsr.value\n            if self.change_mode and not processor.registers.current_mode_is_not_user():\n                processor.registers.cpsr.m = self.mode if not processor.registers.bad_mode(self.mode) else processor.registers.cpsr.m", ['C19']),
    'subs_pc_lr_arm_no_restore': (OPS + 'subs_pc_lr_arm.py', "                processor.registers.cpsr_write_by_instr(processor.registers.get_spsr(), 0b1111, True)\n                if processor.registers.cpsr.m == 0b11010 and", "                if processor.registers.cpsr.m == 0b11010 and", ['C12']),
    'return_keeps_it_bits': (R, "        if bit_at(bytemask, 1):\n            if is_excp_return:\n                self.cpsr.value = set_substring(self.cpsr.value, 15, 10, substring(value, 15, 10))\n", "        if bit_at(bytemask, 1):\n", ['C12', 'C08']),
    'irq_lr_off_by_4': (R, "    def take_physical_irq_exception(self):\n        new_lr_value = self.get_pc() if self.cpsr.t else bits_ops.sub(self.get_pc(), 4, 32)", "    def take_physical_irq_exception(self):\n        new_lr_value = self.get_pc() if self.cpsr.t else self.get_pc()", ['C12', 'C11']),
    'nmfi_ignored': (R, "            if (privileged and (not nmfi or not bit_at(value, 6)) and", "            if (privileged and", ['C12']),
    'wfe_ignores_event_register': (OPS + 'wfe.py', "            if processor.event_registered():\n                processor.clear_event_register()\n            else:", "            if False:\n                processor.clear_event_register()\n            else:", ['C12']),
    'cpacr_01_allows_user': (V, "                elif self.registers.cpacr.get_cp_n(cp_num) == 0b01:\n                    if not self.registers.current_mode_is_not_user():\n                        raise UndefinedInstructionException()", "                elif self.registers.cpacr.get_cp_n(cp_num) == 0b01:\n                    pass", ['C12']),
    'rfe_wback_before_load': (OPS + 'rfe.py', "                new_pc_value = processor.mem_a_get(address, 4)\n                spsr_value = processor.mem_a_get(add(address, 4, 32), 4)", "                new_pc_value = processor.mem_a_get(address, 4)\n                spsr_value = processor.mem_a_get(add(address, 4, 32), 4) & ~0x1F | processor.registers.cpsr.m", ['C12']),
    'msr_aw_ignored': (R, "            if privileged and (self.is_secure() or self.scr.aw or have_virt_ext()):", "            if privileged:", ['C12']),
    'it_advance_only_when_passed': (V, "        if self.in_it_block():\n            opcode.execute(self)\n            self.registers.it_advance()", "        if self.in_it_block():\n            passed = self.condition_passed()\n            opcode.execute(self)\n            if passed:\n                self.registers.it_advance()", ['C08']),
    'add_imm3_sets_flags_in_it': ('armulator/armv6/opcodes/concrete/add_immediate_thumb_t1.py', "setflags = not processor.in_it_block()", "setflags = True", ['C08']),
    'it_cond_inverted_for_else': (R, "            mask, carry = shift.lsl_c(bits_ops.lower_chunk(itstate, 4), 4, 1)\n            condition_state = chain(carry, mask, 4)", "            mask, carry = shift.lsl_c(bits_ops.lower_chunk(itstate, 4), 4, 1)\n            condition_state = chain(bits_ops.bit_at(itstate, 4), mask, 4)", ['C08']),
    'ldr_wback_before_access': (OPS + 'ldr_immediate_arm.py', "            data = processor.mem_u_get(address, 4)\n            if self.wback:\n                processor.registers.set(self.n, offset_addr)\n",
                                "            if self.wback:\n                processor.registers.set(self.n, offset_addr)\n            data = processor.mem_u_get(address, 4)\n", ['C14']),
    'mpu_lowest_region_wins': (V, "                        if hit:\n                            texcb = chain(", "                        if hit and not region_found:\n                            texcb = chain(", ['C14', 'C19']),
    'mpu_subregions_ignored': (V, "                            hit = size_enable.get_sd_n(subregion) == 0", "                            hit = True", ['C14']),
    'mpu_ap6_priv_write_allowed': (V, "        elif perms.ap == 0b110:\n            abort = iswrite", "        elif perms.ap == 0b110:\n            abort = iswrite and not ispriv", ['C14']),
    'pmsa_dfar_not_written': (V, "            else:\n                self.registers.dfar = vaddress\n            if dtype in (DAbort.ASYNC_EXTERNAL, DAbort.SYNC_EXTERNAL):\n                dfsr_string = set_bit_at(dfsr_string, 12, configurations.dfsr_string_12)\n            else:\n                dfsr_string = set_bit_at(dfsr_string, 12, 0)\n            if dtype in (DAbort.SYNC_WATCHPOINT, DAbort.ASYNC_WATCHPOINT):\n                dfsr_string = set_bit_at(dfsr_string, 11, 0)  # unknown\n            else:\n                dfsr_string = set_bit_at(dfsr_string, 11, iswrite)",
                              "            else:\n                pass\n            if dtype in (DAbort.ASYNC_EXTERNAL, DAbort.SYNC_EXTERNAL):\n                dfsr_string = set_bit_at(dfsr_string, 12, configurations.dfsr_string_12)\n            else:\n                dfsr_string = set_bit_at(dfsr_string, 12, 0)\n            if dtype in (DAbort.SYNC_WATCHPOINT, DAbort.ASYNC_WATCHPOINT):\n                dfsr_string = set_bit_at(dfsr_string, 11, 0)  # unknown\n            else:\n                dfsr_string = set_bit_at(dfsr_string, 11, iswrite)", ['C14']),
    'store_lands_before_permission_check': (V, "        memaddrdesc = self.translate_address(va, privileged, True, size, was_aligned)\n        if memaddrdesc.memattrs.shareable:\n            self.clear_exclusive_by_address(memaddrdesc.paddress, processor_id(), size)",
                                            "        try:\n            memaddrdesc = self.translate_address(va, privileged, True, size, was_aligned)\n        except DataAbortException:\n            d = AddressDescriptor()\n            d.paddress.physicaladdress = va\n            self.mem[d, size] = value\n            raise\n        if memaddrdesc.memattrs.shareable:\n            self.clear_exclusive_by_address(memaddrdesc.paddress, processor_id(), size)", ['C14']),
    'background_region_for_user': (V, "                if not self.registers.sctlr.br or not ispriv:", "                if not self.registers.sctlr.br:", ['C14']),
    'stm_wback_before_stores': (OPS + 'stmdb.py', "                address = sub(processor.registers.get(self.n), 4 * bit_count(self.registers, 1, 16), 32)\n                for i in range(15):",
                                "                address = sub(processor.registers.get(self.n), 4 * bit_count(self.registers, 1, 16), 32)\n                if self.wback:\n                    processor.registers.set(self.n, address)\n                for i in range(15):", ['C14']),
    'hub_end_inclusive': ('armulator/armv6/memory_controller_hub.py', "            if memory.beginning <= address < memory.end:", "            if memory.beginning <= address <= memory.end:", ['C16']),
    'hub_last_match_wins': ('armulator/armv6/memory_controller_hub.py', "        for memory in self.memories:\n            if memory.beginning <= address < memory.end:\n                return memory", "        found = None\n        for memory in self.memories:\n            if memory.beginning <= address < memory.end:\n                found = memory\n        return found", ['C16']),
    'ram_write_unclamped': ('armulator/armv6/memory_types.py', "        size = max(0, min(size, self.size - address))\n", "", ['C16']),
    'hub_unmapped_read_ff': ('armulator/armv6/memory_controller_hub.py', "            return to_int(data, size)\n        return 0", "            return to_int(data, size)\n        return (1 << (8 * size)) - 1", ['C16']),
    'walk_large_page_crashes': (V, "            if bit_at(l2desc, 1) == 0:\n", "            if bit_at(l2desc, 1) == 0 and [][0]:\n", ['C18']),
    'walk_supersection_crashes': (V, "            if bit_at(l1desc, 18) == 0:\n", "            if bit_at(l1desc, 18) == 0 or [][0]:\n", ['C18']),
    'hyp_stage1_walk_crashes': (V, "self.registers.htcr.orgn0)", "self.registers.htcr.rgn0)", ['C18']),
    'lpae_stage1_ttbr1_crashes': (V, "                    disabled = self.registers.ttbcr.epd1\n", "                    disabled = self.registers.ttbcr.epd1 or [][0]\n", ['C18']),
    'eret_hyp_uses_lr': (OPS + 'eret.py', "                                if processor.registers.current_mode_is_hyp()\n", "                                if processor.registers.current_mode_is_hyp() and False\n", ['C12']),
    'eret_keeps_cpsr': (OPS + 'eret.py', "                processor.registers.cpsr_write_by_instr(processor.registers.get_spsr(), 0b1111, True)\n", "                processor.registers.cpsr_write_by_instr(processor.registers.get_spsr(), 0b1110, True)\n", ['C12']),
    'vmsa_ap7_writable': (V, "            if memory_system_architecture() == MemArch.VMSA:\n                abort = iswrite\n", "            if memory_system_architecture() == MemArch.VMSA:\n                abort = False\n", ['C19']),
    'manager_domain_checks_permissions': (V, "        if check_domain:\n            check_permission = self.check_domain(", "        if check_domain:\n            check_permission = self.check_domain(tlbrecord_s1.domain, mva, tlbrecord_s1.level, iswrite) or True\n        if False:\n            check_permission = self.check_domain(", ['C19']),
    'vmsa_ap1_user_allowed': (V, "        elif perms.ap == 0b001:\n            abort = not ispriv\n", "        elif perms.ap == 0b001:\n            abort = False\n", ['C19']),
    'hstr_tn_ignored': (V, "                    cr_nnum != 14 and\n                    self.registers.hstr.get_t_n(cr_nnum)):", "                    cr_nnum != 14 and\n                    self.registers.hstr.get_t_n(cr_nnum) and False):", ['C11']),
    'cp15_trap_ec_wrong': (V, "                    self.write_hsr(0b000011, hsr_string)\n                self.registers.take_hyp_trap_exception()\n            if (have_security_ext() and", "                    self.write_hsr(0b000101, hsr_string)\n                self.registers.take_hyp_trap_exception()\n            if (have_security_ext() and", ['C11']),
    'clz_without_condition': (OPS + 'clz.py', "        if processor.condition_passed():", "        if True:", ['C08']),
    'ldrexb_without_condition': (OPS + 'ldrexb.py', "        if processor.condition_passed():", "        if True:", ['C08']),
    'smlald_without_condition': (OPS + 'smlald.py', "        if processor.condition_passed():", "        if True:", ['C08']),
    'keyerror_for_ap_100': (V, "        elif perms.ap == 0b100:\n            print('unpredictable')", "        elif perms.ap == 0b100:\n            abort = {}[perms.ap]", ['C18']),
    'stale_opcode_len_reuse': (V, "        elif self.registers.current_instr_set() == InstrSet.THUMB:\n            self.opcode_len = 2\n            self.opcode = self.mem_a_get(self.registers.pc_store_value(), self.opcode_len)",
                               "        elif self.registers.current_instr_set() == InstrSet.THUMB:\n            self.opcode_len = 2 if self.opcode_len != 1 else 4\n            self.opcode = self.mem_a_get(self.registers.pc_store_value(), 2)", []),
}


def sh(cmd, **kw):
    return subprocess.run(cmd, shell=True, capture_output=True, text=True, **kw)


def run_mutant(name, skip_tests=False, max_runs=None):
    f, old, new, checks = MUTANTS[name]
    wt = '/tmp/armverif-mut-%s' % name
    sh('git -C %s worktree remove --force %s' % (REPO, wt))
    shutil.rmtree(wt, ignore_errors=True)
    r = sh('git -C %s worktree add --detach %s HEAD' % (REPO, wt))
    res = {'mutant': name, 'file': f, 'checks': {}, 'time': time.strftime('%Y-%m-%d %H:%M:%S')}
    try:
        if r.returncode != 0:
            res['error'] = r.stderr[-300:]
            return res
        p = os.path.join(wt, f)
        s = open(p).read()
        if s.count(old) != 1:
            res['error'] = 'pattern occurs %d times' % s.count(old)
            return res
        open(p, 'w').write(s.replace(old, new))
        if not skip_tests:
            t = sh('cd %s && /venv/bin/python -m pytest -q -p no:cacheprovider -n 8 2>&1 | tail -1' % wt)
            res['tests'] = t.stdout.strip()
            res['tests_pass'] = ' passed' in t.stdout and 'failed' not in t.stdout and 'error' not in t.stdout
        for chk in checks:
            env = dict(os.environ, VERIF_REPO=wt, VERIF_EVIDENCE_DIR='/tmp/armverif-mut-evidence')
            if max_runs:
                env['VERIF_MAX_RUNS'] = str(max_runs)
            t0 = time.time()
            c = subprocess.run([sys.executable, '-B', os.path.join(HERE, 'run_check.py'), '--property', chk, '--tier', 'quick'],
                               cwd=HERE, env=env, capture_output=True, text=True)
            lines = [l for l in c.stdout.splitlines() if l.startswith('VIOLATION') or l.startswith('  oracle=')]
            res['checks'][chk] = {'exit': c.returncode, 'caught': c.returncode == 1, 'wall_s': round(time.time() - t0, 1),
                                  'first': lines[0][:300] if lines else '', 'stderr': c.stderr[-300:] if c.returncode == 2 else ''}
            # replay files written for a mutant are scratch
            for l in c.stdout.splitlines():
                if l.startswith('VIOLATION') and 'replay=' in l:
                    rp = os.path.join(HERE, l.split('replay=')[1].strip())
                    if os.path.exists(rp):
                        os.remove(rp)
        return res
    finally:
        sh('git -C %s worktree remove --force %s' % (REPO, wt))
        shutil.rmtree(wt, ignore_errors=True)
        shutil.rmtree('/tmp/armverif-mut-evidence', ignore_errors=True)


def main():
    args = [a for a in sys.argv[1:] if not a.startswith('--') and not a.isdigit()]
    skip = '--skip-tests' in sys.argv
    max_runs = int(sys.argv[sys.argv.index('--max-runs') + 1]) if '--max-runs' in sys.argv else None
    only = None
    if '--only-check' in sys.argv:
        only = sys.argv[sys.argv.index('--only-check') + 1]
        args = [a for a in args if a != only]
    names = args or list(MUTANTS)
    out = []
    for n in names:
        if only and only not in MUTANTS[n][3]:
            continue
        if only:
            MUTANTS[n] = MUTANTS[n][:3] + ([only],)
        r = run_mutant(n, skip, max_runs)
        out.append(r)
        sys.stdout.write(json.dumps(r) + '\n')
        sys.stdout.flush()
    path = os.path.join(HERE, 'selftest', 'sensitivity_results.json')
    old = []
    if os.path.exists(path):
        old = json.load(open(path))
    old = [o for o in old if o['mutant'] not in {r['mutant'] for r in out}] + out
    json.dump(old, open(path, 'w'), indent=1)
    missed = [(r['mutant'], c) for r in out for c, v in r['checks'].items() if not v['caught']]
    sys.stdout.write('missed: %s\n' % missed)
    return 1 if missed else 0


if __name__ == '__main__':
    sys.exit(main())
