"""Developer tool (not part of any check): build sim/classwords.json, a census of the repository's concrete opcode classes with a few
example instruction words each.  Seeds are the words used by /repo/tests/armv6_tests/opcode_tests (one or more per class) plus a
hand-written list for single-word encodings; each seed is mutated bit by bit and a mutant is kept when the real decoder of the CLEAN
tree still maps it to the same class.  The table is workload only (which words the stream generators like to place); no oracle reads it.

  /venv/bin/python -B selftest/classwords_build.py"""
import glob, json, os, random, re, sys
sys.path.insert(0, os.path.dirname(os.path.dirname(os.path.abspath(__file__))))
from sim import env
env.setup()
from sim import machine

HAND = {  # (isa, word)
    'T32': [0xF3BF8F6F, 0xF3BF8F4F, 0xF3BF8F5F, 0xF3BF8F2F, 0xF811F002, 0xF85D1B04, 0xF84D1D04, 0xFA91F2B1, 0xEA4F0131, 0xF3AF8003, 0xF3AF8004,
            0xF3AF8001, 0xF3AF8002, 0xF3AF8000, 0xEA4F0102, 0xF81F1004, 0xF91F1004, 0xF83F1004, 0xF93F1004, 0xF85F1004, 0xF890F000, 0xF810FC00,
            0xFA80F010, 0xFA90F0A0, 0xFA90F080, 0xFA90F090, 0xFAE0F050, 0xF3DE8F00, 0xE8DFF000, 0xE8DFF010, 0xF7F08000, 0xF7F0A000],
    'A': [0xE49D1004, 0xE52D1004, 0xF57FF06F, 0xF57FF04F, 0xF57FF05F, 0xF57FF01F, 0xE320F003, 0xE320F004, 0xE320F001, 0xE320F002, 0xE6CF0071,
          0xE6EF0071, 0xE6FF0071, 0xE68F0071, 0xE6AF0071, 0xE6BF0071, 0xE7800011, 0xE1600070, 0xE160006E, 0xE12FFF21, 0xF1010200, 0xE1A00061],
    'T16': [],
}


def main():
    random.seed(7)
    arm = machine.new_arm({"config": {}, "devices": []})
    seeds = {'A': set(HAND['A']), 'T16': set(range(0x10000)), 'T32': set(HAND['T32'])}
    for f in glob.glob('/repo/tests/armv6_tests/opcode_tests/*.py'):
        src = open(f).read()
        for m in re.finditer(r'arm\.opcode = (0b[01]+|0x[0-9a-fA-F]+)\s*\n\s*arm\.opcode_len = (\d+)', src):
            w = int(m.group(1), 0)
            ln = int(m.group(2))
            isa = 'T16' if ln == 16 else None
            seeds['A'].add(w) if ln == 32 else None
            seeds['T32'].add(w) if ln == 32 else None
    table = {}

    def classify(isa, w):
        arm.registers.cpsr.value = 0x1F3 if isa != 'A' else 0x1D3
        arm.registers.cpsr.it = 0
        arm.opcode = w
        arm.opcode_len = 16 if isa == 'T16' else 32
        if isa == 'T32' and (w >> 27) not in (0b11101, 0b11110, 0b11111):
            return None
        if isa == 'T16' and (w >> 11) in (0b11101, 0b11110, 0b11111):
            return None
        try:
            c = arm.decode_instruction(w)
            if not c:
                return None
            o = c.from_bitarray(w, arm)
            return type(o).__name__ if o is not None else None
        except Exception:
            return None

    for isa in ('A', 'T32', 'T16'):
        nbits = 16 if isa == 'T16' else 32
        for w in sorted(seeds[isa]):
            name = classify(isa, w)
            if name is None:
                continue
            e = table.setdefault(name, {'isa': isa, 'words': []})
            if e['isa'] != isa:
                continue
            if isa == 'T16':
                if len(e['words']) < 24 or random.random() < 0.02:
                    e['words'].append(w)
                continue
            e['words'].append(w)
            # mutants: single and double bit flips that stay in the class
            cand = [w ^ (1 << b) for b in range(nbits)] + [w ^ (1 << random.randrange(nbits)) ^ (1 << random.randrange(nbits)) for _ in range(64)]
            for m in cand:
                if classify(isa, m) == name:
                    e['words'].append(m)
    # random search for anything still missing
    import armulator.armv6.opcodes.concrete as conc
    allc = set()
    for f in glob.glob(os.path.join(os.path.dirname(conc.__file__), '*.py')):
        for m in re.finditer(r'^class (\w+)\(', open(f).read(), re.M):
            allc.add(m.group(1))
    for isa in ('A', 'T32'):
        for _ in range(400000):
            w = random.getrandbits(32)
            if isa == 'T32':
                w = (w & 0x07FFFFFF) | random.choice([0xE8000000, 0xF0000000, 0xF8000000])
            name = classify(isa, w)
            if name and len(table.setdefault(name, {'isa': isa, 'words': []})['words']) < 8 and table[name]['isa'] == isa:
                table[name]['words'].append(w)
    out = {}
    for name in sorted(table):
        ws = sorted(set(table[name]['words']))
        random.shuffle(ws)
        out[name] = {'isa': table[name]['isa'], 'words': sorted(ws[:24])}
    missing = sorted(allc - set(out))
    env.out('classes with words: %d of %d; missing: %s' % (len(set(out) & allc), len(allc), missing))
    with open(os.path.join(os.path.dirname(os.path.dirname(os.path.abspath(__file__))), 'sim', 'classwords.json'), 'w') as f:
        json.dump(out, f, indent=0, sort_keys=True)


if __name__ == '__main__':
    main()
