"""Plumbing self-test: for every kind of planned item of every scenario, the paths that only run when a violation is found must work too:
the case survives a JSON round trip (replay file), run() accepts the reloaded case and gives the same digest, sample() and shrink() work on a
result that carries a (planted) violation.

  /venv/bin/python -B selftest/plumbing.py [c08 ...]"""
import itertools
import json
import os
import random
import sys

sys.path.insert(0, os.path.dirname(os.path.dirname(os.path.abspath(__file__))))
from sim import env
env.setup()
from sim import runner


def kind_of(item):
    return json.dumps({k: v for k, v in sorted(item.items()) if k in ('k', 'sub', 'regime') or (k == 'c' and False)}, sort_keys=True)


def main():
    mods = [a for a in sys.argv[1:] if not a.startswith('-')] or ['c08', 'c10', 'c11', 'c12', 'c14', 'c16', 'c18', 'c19', 'c20']
    bad = 0
    if len(mods) > 1:
        # one fresh interpreter per scenario (C20's pristine-process baselines must be set up before any instance exists)
        import subprocess
        for mod in mods:
            bad += subprocess.call([sys.executable, '-B', os.path.abspath(__file__), mod])
        return 1 if bad else 0
    for mod in mods:
        scen = runner._scenario(mod)
        for tier in ('quick', 'thorough'):
            plan = scen.plan(tier, 1)
            seen = {}
            for idx, item in enumerate(plan):
                k = kind_of(item)
                if seen.get(k, 0) >= (2 if tier == 'quick' else 1):
                    continue
                seen[k] = seen.get(k, 0) + 1
                try:
                    rng = random.Random(runner.derive_seed(1, scen.PROPERTY, tier, idx))
                    case = scen.gen(item, rng, tier)
                    if case.get('scenario') in ('longhaul',) or any(o.get('op') == 'burst' for o in case.get('ops', []) if isinstance(o, dict)):
                        case = dict(case)
                        if 'n1' in case:
                            case.update(n1=300, k=200, sev_at=[5])
                        if 'ops' in case:
                            case['ops'] = [dict(o, n=1000) if o.get('op') == 'burst' else o for o in case['ops']]
                    if case.get('kind') == 'storm':
                        case = dict(case, cores=[dict(case['cores'][0], words=case['cores'][0]['words'][:300])], max_ticks=304)
                    case2 = json.loads(json.dumps(case))
                    res = scen.run(case)
                    res2 = scen.run(case2)
                    if res['digest'] != res2['digest']:
                        raise AssertionError('digest differs after the JSON round trip')
                    fake = dict(res, violations=[{'oracle': 'plumbing', 'site': 'x', 'cls': 'planted', 'detail': 'planted', 'tick': max(0, min(3, res['ticks'] - 1))}])
                    json.dumps(scen.sample(case2, fake), default=str)
                    for c in itertools.islice(scen.shrink(case2), 2):
                        json.dumps(c)
                except Exception as e:
                    bad += 1
                    env.out('%s %s item %d %s: %s: %s' % (mod, tier, idx, k, type(e).__name__, str(e)[:200]))
        env.out('%s ok' % mod)
    env.out('plumbing: %d problems' % bad)
    return 1 if bad else 0


if __name__ == '__main__':
    sys.exit(main())
